#!/usr/bin/env python3
"""tools/add_seed.py <seed-id> <worktree> <props,comma> <batch> <summary> <needs>
Verifies a sub-agent's seeded change with tools/keep_seed.sh (tests with the
worktree's own src, demo fails with / passes without the change), writes
meta.json and removes the scratch worktree."""
import json
import os
import subprocess
import sys

sid, wt, props, batch, summary, needs = sys.argv[1:7]
out = subprocess.run(['/verif/tools/keep_seed.sh', sid, wt],
                     capture_output=True, text=True).stdout
print(out[-300:])
if 'NOT-VERIFIED' in out or 'VERIFIED' not in out:
    print('NOT KEPT')
    subprocess.run(['rm', '-rf', '/verif/seeded/' + sid])
    sys.exit(1)
json.dump({
    'properties': props.split(','), 'needs': needs, 'summary': summary,
    'origin': 'written by an independent sub-agent (batch %s) that saw only '
              'the property text and a scratch worktree' % batch,
    'verified': {
        'how': 'tools/keep_seed.sh (tests run with PYTHONPATH=<worktree>/src)'
               ': 377/377 stable baseline tests pass with the change; '
               'demo_seeded.py exits non-zero with the change and 0 on the '
               'clean tree',
        'outputs': ['demo_with_change.out', 'demo_clean.out']}},
    open('/verif/seeded/%s/meta.json' % sid, 'w'), indent=1)
subprocess.run(['git', '-C', '/repo', 'worktree', 'remove', '--force', wt])
print('kept', sid)

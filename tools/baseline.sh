#!/bin/bash
# Runs the repository's pinned suite (hooks: none) and compares with BASELINE.json stable_pass.
OUT=$(mktemp /tmp/junit.XXXXXX.xml)
cd /repo && /venv/bin/python -m pytest -ra -q -p no:cacheprovider --timeout=900 --continue-on-collection-errors --junitxml=$OUT >/dev/null 2>&1
/venv/bin/python - "$OUT" <<'PY'
import json, sys, xml.etree.ElementTree as ET
base = json.load(open('/root/.vp/BASELINE.json'))
want = set(base['stable_pass'])
got = set()
for tc in ET.parse(sys.argv[1]).getroot().iter('testcase'):
    if not list(tc):  # no failure/error/skipped children
        got.add('%s::%s' % (tc.get('classname'), tc.get('name')))
missing = sorted(want - got)
print('stable_pass: %d, passing now: %d of them, missing: %d' % (len(want), len(want & got), len(missing)))
for m in missing[:20]: print('  MISSING', m)
sys.exit(1 if missing else 0)
PY
rc=$?
rm -f $OUT
exit $rc

#!/bin/bash
# tools/coverage.sh [tier] [checks...] : which lines of src/engineio do the workloads of the checks execute?
# Measurement only (guides widening of workloads); writes out/coverage.txt. Scratch under $TMPDIR, removed.
TIER=${1:-quick}; shift
CHECKS=${@:-C01 C02 C03 C04 C05 C06 C07 C08 C09 C10 C11 C12 C13 C14 C15 C16 C17 C18 C19 C20}
cd "$(dirname "$0")/.."
D=$(mktemp -d ${TMPDIR:-/tmp}/vf-cov.XXXXXX)
cat > $D/rc <<RC
[run]
source = ${VERIF_REPO_SRC:-/repo/src}/engineio
parallel = True
concurrency = greenlet,thread
data_file = $D/data/.coverage
RC
mkdir -p $D/data $D/ev out
for c in $CHECKS; do
  COVERAGE_PROCESS_START=$D/rc VERIF_EVIDENCE_DIR=$D/ev ./check $c $TIER > $D/$c.log 2>&1
  echo "$c rc=$? $(grep -E '^(HELD|VIOLATION|INCONCLUSIVE)' $D/$c.log | head -1)"
done
cd $D && /venv/bin/python -m coverage combine --rcfile=$D/rc -q >/dev/null 2>&1
/venv/bin/python -m coverage report --rcfile=$D/rc -m > /verif/out/coverage.txt 2>&1
tail -30 /verif/out/coverage.txt
rm -rf $D

#!/bin/bash
# runs every check's quick (or given) tier and validates the evidence files
TIER=${1:-quick}
cd "$(dirname "$0")/.."
rc=0
for i in 01 02 03 04 05 06 07 08 09 10 11 12 13 14 15 16 17 18 19 20; do
  s=$(date +%s.%N)
  out=$(./check C$i $TIER 2>&1); r=$?
  e=$(date +%s.%N)
  printf "C%s rc=%d %.1fs %s\n" $i $r $(echo "$e - $s" | bc) "$(echo "$out" | grep -E '^(HELD|VIOLATION|INCONCLUSIVE)' | head -2 | tr '\n' ' ' | cut -c1-150)"
  [ $r -ne 0 ] && rc=1
done
python3-vt - <<'PY'
import json, jsonschema, glob
s=json.load(open('/root/.vp/EVIDENCE.schema.json'))
for f in sorted(glob.glob('/verif/evidence/*.json')):
    try: jsonschema.validate(json.load(open(f)), s)
    except Exception as e: print('EVIDENCE INVALID', f, str(e)[:200])
print('evidence validated')
PY
exit $rc

#!/usr/bin/env python3
"""Regenerates /verif/MANIFEST.json from the table below (one place to edit)."""
import json
import os

HERE = os.path.dirname(os.path.dirname(os.path.abspath(__file__)))

# id -> (category, technique, level text, level note, design ref, engine)
CHECKS = {
    'C01': ('exploration',
            'runtime contracts (icontract) on the real Packet methods vs an '
            'independent wire-form reference, seeded workload',
            'Post-conditions on every Packet.encode/decode/constructor call of '
            'a generated workload (7 types x 16 payload classes x every call '
            'pattern up to length 4, sampled beyond) compared with a reference '
            'written from the statement; held on the executions observed.',
            'reference encoder/decoder (vf/gen.py), stdlib json/base64, '
            'icontract', '4/C01', 'codec'),
    'C02': ('exploration',
            'runtime contracts on the real Payload codec + per-piece reference '
            '+ sys.monitoring logical-step budget; exhaustive small scope',
            'Every string up to length 4 (quick) / 6 (thorough) over a '
            '12-symbol adversarial alphabet, their d= forms, random long '
            'strings and packet lists of 0..18 are decoded by the real code '
            'under a logical step budget and compared with a per-piece '
            'reference; exhaustive within that scope, sampled outside it.',
            'real Packet decoder per piece (covered by C01), urllib.parse, '
            'step budget constant', '4/C02', 'codec'),
    'C17': ('exploration',
            'issue monitor wrapped around the real generate_id with a '
            'recording/adversarial random source; one full counter period',
            'Per-issue format, provenance (>=12 CSPRNG bytes embedded) and '
            'counter-step invariants on windows from several start counters and '
            'adversarial random sources; thorough runs one complete 2^24+1 '
            'period from three start counters with a constant source (the worst '
            'case), which covers every window of 2^24.',
            'quality of os.urandom; "embeds" decided as contiguous containment '
            'of the drawn bytes in the decoded id', '4/C17', 'idgen'),
}

PENDING = {}


def main():
    props = [json.loads(l) for l in open(os.path.join(HERE,
                                                      'properties.jsonl'))]
    checks, na = [], []
    for p in props:
        pid = p['id']
        if pid in CHECKS:
            cat, tech, text, note, ref, eng = CHECKS[pid]
            checks.append({
                'property_id': pid,
                'quick_cmd': './check %s quick' % pid,
                'thorough_cmd': './check %s thorough' % pid,
                'evidence_file': 'evidence/%s.json' % pid,
                'replay_cmd_template': './check %s --replay {path}' % pid,
                'engine': eng,
                'level_claimed': {'category': cat, 'text': text,
                                  'design_ref': 'DESIGN.md section ' + ref},
                'level_note': note,
                'technique': tech,
            })
        else:
            na.append({'property_id': pid, 'reason': PENDING.get(
                pid, 'check not built yet in this session (runtime monitor '
                'planned in DESIGN.md section 4); not claimed until it runs')})
    man = {
        'version': 1,
        'setup_cmd': './check setup',
        'hooks': {
            'guard': 'ENGINEIO_VERIF',
            'enable': 'no source hooks: all instrumentation is applied from '
                      'the harness at run time (icontract wrappers, '
                      'sys.monitoring, injected drivers/clock); checks import '
                      'engineio from /repo/src of the current working tree',
            'baseline_off_cmd': 'cd /repo && /venv/bin/python -m pytest -q '
                                '-p no:cacheprovider --timeout=900',
            'source_commits': [],
            'add_only': True,
        },
        'engines': [
            {'name': 'codec', 'path': 'vf/checks/c01.py',
             'serves_properties': ['C01', 'C02'],
             'kind_free_text': 'function-level runtime contracts + reference'},
            {'name': 'idgen', 'path': 'vf/checks/c17.py',
             'serves_properties': ['C17'],
             'kind_free_text': 'issue monitor with injected random source'},
        ],
        'checks': checks,
        'not_applicable': na,
        'notes': 'Runtime monitoring only. Known findings: KNOWN_FINDINGS.txt.'
                 ' Three-valued verdicts: exit 0 held, 1 VIOLATION, 2 '
                 'INCONCLUSIVE (never on the unchanged tree).',
    }
    with open(os.path.join(HERE, 'MANIFEST.json'), 'w') as f:
        json.dump(man, f, indent=1)
    print('wrote MANIFEST.json: %d checks, %d not claimed' % (len(checks),
                                                              len(na)))


if __name__ == '__main__':
    main()

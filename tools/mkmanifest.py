#!/usr/bin/env python3
"""Regenerates /verif/MANIFEST.json from the table below (one place to edit)."""
import json
import os

HERE = os.path.dirname(os.path.dirname(os.path.abspath(__file__)))

# id -> (category, technique, level text, level note, design ref, engine)
CHECKS = {
    'C01': ('exploration',
            'runtime contracts (icontract) on the real Packet methods vs an '
            'independent wire-form reference, seeded workload',
            'Post-conditions on every Packet.encode/decode/constructor call of '
            'a generated workload (7 types x 16 payload classes x every call '
            'pattern up to length 4, sampled beyond) compared with a reference '
            'written from the statement; held on the executions observed.',
            'reference encoder/decoder (vf/gen.py), stdlib json/base64, '
            'icontract', '4/C01', 'codec'),
    'C02': ('exploration',
            'runtime contracts on the real Payload codec + per-piece reference '
            '+ sys.monitoring logical-step budget; exhaustive small scope',
            'Every string up to length 4 (quick) / 6 (thorough) over a '
            '12-symbol adversarial alphabet, their d= forms, random long '
            'strings and packet lists of 0..18 are decoded by the real code '
            'under a logical step budget and compared with a per-piece '
            'reference; exhaustive within that scope, sampled outside it.',
            'real Packet decoder per piece (covered by C01), urllib.parse, '
            'step budget constant', '4/C02', 'codec'),
    'C17': ('exploration',
            'issue monitor wrapped around the real generate_id with a '
            'recording/adversarial random source; one full counter period',
            'Per-issue format, provenance (>=12 CSPRNG bytes embedded) and '
            'counter-step invariants on windows from several start counters and '
            'adversarial random sources; thorough runs one complete 2^24+1 '
            'period from three start counters with a constant source (the worst '
            'case), which covers every window of 2^24.',
            'quality of os.urandom; "embeds" decided as contiguous containment '
            'of the drawn bytes in the decoded id', '4/C17', 'idgen'),
}


S = 'DESIGN.md section 4/'
CHECKS.update({
    'C03': ('exploration',
            'offline history checker (unique message ids) over the delivery '
            'log recorded at the client boundary; real servers under a '
            'deterministic virtual-time scheduler / virtual asyncio loop; '
            'seeded random schedules + stateless DFS over all cooperative '
            'schedules of a small scenario',
            'At-most-once, recipient, order, lone-poll completeness, '
            'NOOP-only-after-upgrade-began and drain completeness oracles on '
            'thousands of generated histories per server, under seeded random '
            'cooperative schedules (threaded) / seeded injection points '
            '(asyncio), plus exhaustive enumeration of every cooperative '
            'schedule of one small upgrade scenario.',
            'harness patch points (server._async, engineio.socket.time, '
            'virtual loop); reference client; schedules explored are the '
            'cooperative ones', 'C03', 'simT+simA'),
    'C04': ('exploration',
            'reference dispatcher vs application handler log at the boundary; '
            'seeded bodies over all ten type digits; both servers, both '
            'handler modes',
            'Every generated body / frame sequence is judged by a reference '
            'dispatcher written from the statement (exactly-once, order, '
            'refusal by type, whole-body rejection, dead sessions).',
            'same patch points as C03; a poll is kept pending so that error '
            'paths are not masked by known finding K1', 'C04', 'simT+simA'),
    'C05': ('fault_enumeration',
            'online event automaton per session + end-cause ledger over '
            'generated histories; systematic pairs of simultaneous end causes',
            'Automaton (connect first, one disconnect, nothing after) and '
            'reason ledger on seeded histories with every end cause, handler '
            'exceptions injected, final silence past all timeouts, then '
            'probes of dead ids; all ordered pairs of six end causes at one '
            'virtual instant on every transport mode under several schedules '
            'and under stateless DFS over all cooperative schedules (leaf bound; '
            'evidence counts exhausted trees); handlers that fail (Exception, '
            'BaseException-only, TypeError), suspend, or have the legacy form; '
            'a pre-emptive tier (OS threads + line-level pre-emption).',
            'pre-emptive interleavings inside close() only in the thorough '
            'pre-emption tier; reasons of timing-caused ends are a set',
            'C05', 'simT+simA'),
    'C06': ('fault_enumeration',
            'trace automaton over the upgrade socket + transport() samples + '
            'post-failure drain and re-upgrade; enumeration of frame pairs x '
            'closure points x configuration',
            'Fault enumeration of the handshake: 12x12 frame pairs x 4 closure '
            'points x 2 closure conventions x 5 concurrent activities x '
            'allow_upgrades x transports x 2 servers (69 120 cells, all in '
            'thorough), cells with concurrent activity again under seeded random '
            'schedules, three spellings of the handshake headers.', 'probe = text frame 2probe, UPGRADE = any type-5 '
            'packet', 'C06', 'simT+simA'),
    'C07': ('exploration',
            'timing checker on virtual timestamps (PING schedule, accuracy, '
            'detection bound, send-after-deadline, starved poll)',
            'Timelines of >= 20 heartbeat cycles over a grid of interval / '
            'timeout / grace / session count / monitor / transport mix with '
            'PONG delays up to timeout-2^-10, then seeded silent peers; all '
            'verdicts in virtual time.', 'virtual clock patch points; PONG '
            'delay exactly equal to the timeout is not generated', 'C07',
            'simT+simA'),
    'C08': ('fault_enumeration',
            'client event automaton + public-state probes + task-termination '
            'check against a scripted server; enumeration of server faults x '
            'enders x cycles',
            'Every server behaviour at connect x transport x probe outcome x '
            'way of ending (14 enders incl. in-flight POST, dead write loop then a '
            'burst, refused POST with polls still answered, garbage from the '
            'server) x 1..3 connect cycles for both real clients, plain / '
            'coroutine / legacy handler forms; a pre-emptive tier for the '
            'threaded client.',
            'fake transports at the requests / websocket-client / aiohttp '
            'call boundary honour time-outs in virtual time', 'C08',
            'cliT+cliA'),
    'C09': ('exploration',
            'conversation checker at the scripted-server boundary (unique ids '
            'both ways, URL oracle, probe automaton, silence bound)',
            'Seeded conversations (bursts, PINGs with data, odd packets, '
            'probe variants, silence) and a URL grammar for both clients.',
            'threaded client under the FIFO schedule for order; fakes as in '
            'C08', 'C09', 'cliT+cliA'),
    'C10': ('exploration',
            'two-sided exactly-once/order/equality checker over real client '
            '<-> real server conversations, four implementation pairs',
            'Real Client/AsyncClient connected to real Server/AsyncServer '
            '(asyncio side through the real ASGI adapter) under one virtual '
            'clock: bursts of 1..40 each way, 31-cycle idle periods, either '
            'side ending, three transport choices, six heartbeat settings, '
            'seeded network latency per hop and server sends racing with the '
            'client\'s connect / upgrade sequence.',
            'cross pairs run an asyncio loop as one task of the thread '
            'scheduler (bridge); fake transports stand in for the network',
            'C10', 'pairs'),
    'C11': ('exploration',
            'OPEN/401/cookie reference on every cell of a configuration grid; '
            'advertised upgrade decided by performing the probe handshake',
            'Exhaustive configuration grid (186 k cells in thorough) on both '
            'servers and three open kinds; rejected ids probed through every '
            'entry point.', 'times compared at |d| < 1 ms', 'C11',
            'simT+simA'),
    'C12': ('exploration',
            'reference admission function + before/after state snapshots of '
            'the real server around every refused request',
            'Full cross product method x EIO x transport x sid kind x headers '
            'x JSONP x configured transports x server (141 k cells in '
            'thorough), each against a fresh session population.',
            'OPTIONS and a few ambiguous cells are status don\'t-care',
            'C12', 'simT+simA'),
    'C13': ('exploration',
            'reference origin predicate + spies (session-table access '
            'recorder, id generator counter, handler log) + header oracle',
            'Full cross product of origin configurations, credentials, Origin '
            'variants (near misses of every allowed value), Host / scheme / '
            'X-Forwarded shapes, request kinds and servers.',
            'only the refusal direction is judged', 'C13', 'simT+simA'),
    'C14': ('exploration',
            'instrumented body reader + handler payload sizes + liveness '
            'around every limit',
            'Lengths M-2..M+2, 0, 1, 2M, 10M for limits 1..10^6, text and '
            'binary, declared vs actual length, six delivery paths, packet '
            'counts 0..18 with limits 1 and 16, both servers.',
            'ASCII at the boundary so bytes = characters', 'C14',
            'simT+simA'),
    'C15': ('fault_enumeration',
            'gateway-protocol monitors (wsgiref.validate + recorder, ASGI '
            'automaton) + scheduler hang detector with stack witness + '
            'escaped-exception capture',
            'Method x session state x body fault x transport x JSONP x server '
            'and the API calls in every session state; unusual-but-legal '
            'requests (undecodable header / query bytes, chunked ASGI bodies, '
            'client gone before its body was read); disconnect() with a slow '
            'handler and a concurrent poll; a pre-emptive tier (requests and '
            'API calls racing on one session, each alarm re-run cooperatively '
            'as a control); completion is decided as bounded progress in '
            'virtual time.',
            'WebSocket handshake requests are exempt from the HTTP response '
            'oracle', 'C15', 'simT+simA'),
    'C16': ('exploration',
            'API probes on dead ids bracketed by snapshots + session tokens + '
            'table-vs-reference-liveness at quiescent checkpoints',
            'Long generated runs (up to 2000 actions / 40 live sessions) with '
            'every end cause and clients vanishing at every point; table '
            'compared with reference liveness after bounded sweeps.',
            'disconnect() of all clients not used (K1 would falsify the '
            'reference liveness)', 'C16', 'simT+simA'),
    'C18': ('exploration',
            'lock-step differential replay of one history on both real '
            'servers, compared at every quiescent point',
            'Thousands of generated histories over the union alphabet; event, '
            'delivery, status and liveness streams compared after every '
            'action.', 'threaded side under the canonical FIFO schedule; '
            'timing-caused ends compared only as "both within the bound"',
            'C18', 'simT+simA'),
    'C19': ('exploration',
            'response decoder at the client boundary (Content-Encoding undo + '
            'hand-written JavaScript string-literal evaluator) vs the packets '
            'the scenario queued',
            'Seeded payload alphabets x Accept-Encoding shapes x compression '
            'x thresholds around the measured body size x JSONP index x open '
            'and poll responses x both servers, plus sequences of 3..9 '
            'responses (incl. POST / OPTIONS acknowledgements) from one server '
            'instance.',
            'offered = token with q absent or > 0', 'C19', 'simT+simA'),
    'C20': ('exploration',
            'reference router + downstream spies + sys.addaudithook open '
            'recorder (containment) + ASGI lifespan automaton',
            'Exhaustive request paths to depth 4 over an 11-segment '
            'vocabulary (1.8 M requests in thorough) x 11 mappings x endpoints '
            'x wrapped app x both gateways; all lifespan callback shapes.',
            'tree without symlinks', 'C20', 'mw'),
})

PENDING = {}


def main():
    props = [json.loads(l) for l in open(os.path.join(HERE,
                                                      'properties.jsonl'))]
    checks, na = [], []
    for p in props:
        pid = p['id']
        if pid in CHECKS:
            cat, tech, text, note, ref, eng = CHECKS[pid]
            checks.append({
                'property_id': pid,
                'quick_cmd': './check %s quick' % pid,
                'thorough_cmd': './check %s thorough' % pid,
                'evidence_file': 'evidence/%s.json' % pid,
                'replay_cmd_template': './check %s --replay {path}' % pid,
                'engine': eng,
                'level_claimed': {'category': cat, 'text': text,
                                  'design_ref': 'DESIGN.md section ' + ref},
                'level_note': note,
                'technique': tech,
            })
        else:
            na.append({'property_id': pid, 'reason': PENDING.get(
                pid, 'check not built yet in this session (runtime monitor '
                'planned in DESIGN.md section 4); not claimed until it runs')})
    man = {
        'version': 1,
        'setup_cmd': './check setup',
        'hooks': {
            'guard': 'ENGINEIO_VERIF',
            'enable': 'no source hooks: all instrumentation is applied from '
                      'the harness at run time (icontract wrappers, '
                      'sys.monitoring, injected drivers/clock); checks import '
                      'engineio from /repo/src of the current working tree',
            'baseline_off_cmd': 'cd /repo && /venv/bin/python -m pytest -q '
                                '-p no:cacheprovider --timeout=900',
            'source_commits': [],
            'add_only': True,
        },
        'engines': [
            {'name': 'codec', 'path': 'vf/checks/c01.py',
             'serves_properties': ['C01', 'C02'],
             'kind_free_text': 'function-level runtime contracts + reference'},
            {'name': 'idgen', 'path': 'vf/checks/c17.py',
             'serves_properties': ['C17'],
             'kind_free_text': 'issue monitor with injected random source'},
            {'name': 'simT+simA', 'path': 'vf/simt.py',
             'serves_properties': ['C03', 'C04', 'C05', 'C06', 'C07', 'C11',
                                   'C12', 'C13', 'C14', 'C15', 'C16', 'C18',
                                   'C19'],
             'kind_free_text': 'real threaded server under a deterministic '
             'virtual-time scheduler (vf/vsched.py), with a fake WebSocket '
             'driver or the real simple_websocket driver over an in-memory '
             'socket (vf/simw.py), and real asyncio server '
             'behind the real ASGI adapter on a virtual loop (vf/vloop.py, '
             'vf/sima.py) or behind the real aiohttp adapter and web server '
             'over an in-memory transport speaking HTTP/1.1 and RFC 6455 '
             'bytes (vf/simh.py), or behind the real tornado adapter, HTTP '
             'server and WebSocket implementation over an in-memory IOStream '
             '(vf/simn.py), driven by a reactive reference client '
             '(vf/hist.py)'},
            {'name': 'cliT+cliA', 'path': 'vf/cli.py',
             'serves_properties': ['C08', 'C09'],
             'kind_free_text': 'real clients on the same engines against a '
             'scripted server through fake transports'},
            {'name': 'pairs', 'path': 'vf/cli.py',
             'serves_properties': ['C10'],
             'kind_free_text': 'real client <-> real server, incl. bridge '
             '(asyncio loop as a scheduler task), the server also behind the '
             'real aiohttp / tornado web servers, the client also over a '
             'real aiohttp.ClientSession'},
            {'name': 'mw', 'path': 'vf/checks/c20.py',
             'serves_properties': ['C20'],
             'kind_free_text': 'gateway middleware with spies and audit hook'},
        ],
        'checks': checks,
        'not_applicable': na,
        'notes': 'Runtime monitoring only. Known findings: KNOWN_FINDINGS.txt.'
                 ' Three-valued verdicts: exit 0 held, 1 VIOLATION, 2 '
                 'INCONCLUSIVE (never on the unchanged tree).',
    }
    with open(os.path.join(HERE, 'MANIFEST.json'), 'w') as f:
        json.dump(man, f, indent=1)
    print('wrote MANIFEST.json: %d checks, %d not claimed' % (len(checks),
                                                              len(na)))


if __name__ == '__main__':
    main()

#!/bin/bash
# tools/reverify_seeds.sh [id-substring] : re-verify every stored seeded change in a fresh scratch worktree
# (tests with the change against the worktree's own src, demo fails with / passes without the change)
SUB=${1:-}
for d in /verif/seeded/*${SUB}*/; do
  ID=$(basename $d)
  WT=/tmp/wt-rv-$ID
  git -C /repo worktree add -q --detach $WT HEAD 2>/dev/null || { echo "$ID worktree failed"; continue; }
  git -C $WT apply $d/patch.diff || { echo "$ID PATCH DOES NOT APPLY"; git -C /repo worktree remove --force $WT; continue; }
  cp $d/demo_seeded.py $WT/
  OUT=$(mktemp /tmp/junit.XXXXXX.xml)
  (cd $WT && PYTHONPATH=$WT/src /venv/bin/python -m pytest -q -p no:cacheprovider --timeout=900 --continue-on-collection-errors --junitxml=$OUT >/dev/null 2>&1)
  T=$(/venv/bin/python - "$OUT" <<'PY'
import json, sys, xml.etree.ElementTree as ET
want = set(json.load(open('/root/.vp/BASELINE.json'))['stable_pass'])
got = set()
for tc in ET.parse(sys.argv[1]).getroot().iter('testcase'):
    if not list(tc): got.add('%s::%s' % (tc.get('classname'), tc.get('name')))
print('%d/%d%s' % (len(want & got), len(want), '' if want <= got else ' MISSING:' + ','.join(sorted(want-got))[:300]))
PY
)
  rm -f $OUT
  (cd $WT && PYTHONPATH=$WT/src timeout 300 /venv/bin/python demo_seeded.py >/dev/null 2>&1); A=$?
  git -C $WT checkout -- src
  (cd $WT && PYTHONPATH=$WT/src timeout 300 /venv/bin/python demo_seeded.py >/dev/null 2>&1); B=$?
  echo "$ID tests=$T demo_with_change_rc=$A demo_clean_rc=$B"
  git -C /repo worktree remove --force $WT
done

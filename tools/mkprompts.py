#!/usr/bin/env python3
"""tools/mkprompts.py <batch> [focus.json] : writes /tmp/prompts/<batch>-Cnn.txt
(one prompt per property for a fresh sub-agent: the property text, its own
scratch worktree /tmp/wt/<batch>-Cnn, nothing from /verif) and creates the
worktrees. focus.json maps property id -> a focus hint (optional; with "_only": true
only the properties it names get a prompt)."""
import json
import os
import subprocess
import sys

batch = sys.argv[1]
focus = json.load(open(sys.argv[2])) if len(sys.argv) > 2 else {}
T = '''You are working in a scratch git worktree of the open-source project python-engineio located at {wt} (package source in {wt}/src/engineio, tests in {wt}/tests). Work ONLY inside that directory (plus /tmp for temporary files). Do NOT read or write anything under /repo or /verif. There is no network. The interpreter is /venv/bin/python. IMPORTANT: an older copy of the package is installed in that interpreter, so ALWAYS set PYTHONPATH={wt}/src so that the worktree's code is what gets imported, e.g.
  cd {wt} && PYTHONPATH={wt}/src /venv/bin/python -m pytest -q -p no:cacheprovider --timeout=900 --continue-on-collection-errors
(About 28 tests fail or error already, before any change, for environmental reasons - ignore those; record which tests pass before you change anything.)

Here is a semantic property that the package is supposed to satisfy:

  "{title}": {statement}

YOUR TASK: make one small, realistic change to the package source (files under src/engineio only) - the kind of edit a developer could plausibly make during a refactoring, optimisation, clean-up or small feature patch, not blatant sabotage - that BREAKS this property, such that:
 (1) the package still imports and every test of the existing suite that passed before still passes (run the suite before and after and compare);
 (2) the breakage needs something specific to manifest: a particular interleaving or timing, a crash or fault at a particular point, a multi-step sequence of operations, an unusual input, or two cooperating code sites that each look fine alone. It must NOT be something that ordinary use (connect, exchange a few messages, disconnect) would expose at once.
{focus}
Also write {wt}/demo_seeded.py: a self-contained program (standard library + the package; unittest.mock, asyncio and threads are fine; no network) that drives the real package code and exits with status 0 on the unmodified code but exits non-zero - printing what it observed that violates the property - when your change is applied. It will be run as: cd {wt} && PYTHONPATH={wt}/src /venv/bin/python demo_seeded.py   (it must finish within 60 seconds).
Verify BOTH states yourself: run the demo with your change (must exit non-zero); then save your change (git -C {wt} diff -- src > /tmp/{name}.diff), revert it (git -C {wt} checkout -- src), run the demo (must exit 0), and re-apply (git -C {wt} apply /tmp/{name}.diff). Do not use git stash and do not commit. Never use pkill/killall with a file-name pattern (other people's processes with the same file name run on this machine) - kill only PIDs you started. Leave the worktree with your change applied (uncommitted) and demo_seeded.py present.

Your final answer must be SHORT (at most 250 words plus the diff): the diff, what exactly is needed for the break to manifest (3-5 sentences), the test-suite pass counts before and after, and the demo's exit status in both states. No tables, no extra commentary.'''
os.makedirs('/tmp/prompts', exist_ok=True)
for line in open('/verif/properties.jsonl'):
    d = json.loads(line)
    pid = d['id']
    if focus.get('_only') and pid not in focus:
        continue    # a batch for some of the properties only
    wt = '/tmp/wt/%s-%s' % (batch, pid)
    subprocess.run(['git', '-C', '/repo', 'worktree', 'add', '-q', '--detach',
                    wt, 'HEAD'])
    f = focus.get(pid)
    open('/tmp/prompts/%s-%s.txt' % (batch, pid), 'w').write(T.format(
        wt=wt, title=d.get('title', ''), statement=d['statement'],
        name='%s-%s' % (batch, pid),
        focus=('Focus suggestion: %s.\n' % f) if f else ''))
print('prompts in /tmp/prompts, worktrees in /tmp/wt')

#!/bin/bash
# tools/try_seed.sh <seeded-id> <tier> <check>...  : apply a stored seeded change to a scratch copy of /repo's
# working tree (never /repo itself, so that concurrent runs are not disturbed), run checks against it, remove it
ID=$1; TIER=$2; shift 2
D=$(mktemp -d /tmp/tryseed.XXXXXX)
cp -r /repo/src $D/src
( cd $D && patch -p1 -s < /verif/seeded/$ID/patch.diff ) || { echo "cannot apply"; rm -rf $D; exit 2; }
cd /verif
for c in "$@"; do
  out=$(VERIF_REPO_SRC=$D/src VERIF_EVIDENCE_DIR=$D/ev ./check $c $TIER 2>&1); rc=$?
  echo "$c rc=$rc $(echo "$out" | grep -E '^  key=' | head -3 | cut -c1-160 | tr '\n' ' ')"
done
rm -rf $D

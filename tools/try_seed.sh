#!/bin/bash
# tools/try_seed.sh <seeded-id> <tier> <check>...  : apply a stored seeded change to /repo, run checks, undo
ID=$1; TIER=$2; shift 2
cd /repo && git apply /verif/seeded/$ID/patch.diff || { echo "cannot apply"; exit 2; }
cd /verif
for c in "$@"; do
  out=$(VERIF_EVIDENCE_DIR=/tmp/seed-ev ./check $c $TIER 2>&1); rc=$?
  echo "$c rc=$rc $(echo "$out" | grep -E '^  key=' | head -3 | cut -c1-160 | tr '\n' ' ')"
done
git -C /repo checkout -- . ; rm -rf /tmp/seed-ev
git -C /repo status --short | head -3

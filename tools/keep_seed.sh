#!/bin/bash
# tools/keep_seed.sh <id> <worktree>  : verify a sub-agent's seeded change and store it under /verif/seeded/<id>/
ID=$1; WT=$2
set -u
D=/verif/seeded/$ID
mkdir -p $D
git -C $WT diff -- src > $D/patch.diff
cp $WT/demo_seeded.py $D/demo_seeded.py
[ -s $D/patch.diff ] || { echo "EMPTY PATCH"; exit 1; }
# 1. tests with the change: the 377 stable tests still pass
OUT=$(mktemp /tmp/junit.XXXXXX.xml)
(cd $WT && PYTHONPATH=$WT/src /venv/bin/python -m pytest -q -p no:cacheprovider --timeout=900 --continue-on-collection-errors --junitxml=$OUT >/dev/null 2>&1)
PYTHONPATH=$WT/src /venv/bin/python -c 'import engineio,sys; print("tests import", engineio.__file__)'
/venv/bin/python - "$OUT" <<'PY'
import json, sys, xml.etree.ElementTree as ET
want = set(json.load(open('/root/.vp/BASELINE.json'))['stable_pass'])
got = set()
for tc in ET.parse(sys.argv[1]).getroot().iter('testcase'):
    if not list(tc): got.add('%s::%s' % (tc.get('classname'), tc.get('name')))
print('TESTS with change: %d/%d stable tests pass' % (len(want & got), len(want)))
sys.exit(0 if want <= got else 1)
PY
T=$?; rm -f $OUT
# 2. demo with the change fails
(cd $WT && PYTHONPATH=$WT/src timeout 300 /venv/bin/python demo_seeded.py > $D/demo_with_change.out 2>&1); A=$?
# 3. demo on the clean tree passes
# (no git stash: the stash is shared by all worktrees)
git -C $WT checkout -- src
(cd $WT && PYTHONPATH=$WT/src timeout 300 /venv/bin/python demo_seeded.py > $D/demo_clean.out 2>&1); B=$?
git -C $WT apply $D/patch.diff
echo "tests_ok=$T demo_with_change_rc=$A demo_clean_rc=$B"
[ $T -eq 0 ] && [ $A -ne 0 ] && [ $B -eq 0 ] && echo VERIFIED || echo NOT-VERIFIED

"""HTTP/1.1 + RFC 6455 front-end for the scripted server (vf.cli.ScriptedA),
so that the real AsyncClient can be driven through a REAL
aiohttp.ClientSession: the client's connector opens in-memory pipes to this
protocol, which parses the request bytes aiohttp writes, asks the scripted
server what to do (the same decisions the fake-session worlds use) and writes
response bytes / WebSocket frames back.

Only the server side is scripted; nothing of aiohttp's client is faked.
"""
import asyncio
import base64
import hashlib
import struct

from vf import cli as _cli

GUID = b'258EAFA5-E914-47DA-95CA-C5AB0DC85B11'
REASONS = {200: 'OK', 400: 'Bad Request', 401: 'Unauthorized',
           403: 'Forbidden', 404: 'Not Found', 500: 'Internal Server Error',
           502: 'Bad Gateway', 101: 'Switching Protocols'}


def server_frame(op, payload):
    n = len(payload)
    hdr = bytes([0x80 | op])
    if n < 126:
        hdr += bytes([n])
    elif n < 65536:
        hdr += bytes([126]) + struct.pack('!H', n)
    else:
        hdr += bytes([127]) + struct.pack('!Q', n)
    return hdr + payload


class HttpFront(asyncio.Protocol):
    def __init__(self, srv, loop, scheme='http'):
        self.srv = srv
        self.loop = loop
        self.scheme = scheme
        self.buf = b''
        self.tr = None
        self.conn = None        # AConn once upgraded
        self.busy = False
        self.pump = None
        self.frag = None
        self.tasks = []

    # ---- asyncio.Protocol
    def connection_made(self, transport):
        self.tr = transport

    def connection_lost(self, exc):
        if self.conn is not None and not self.conn.client_closed:
            # the client's side of the socket is gone
            self.conn.client_closed = True
            self.srv.ws_events.append(('client-lost', self.srv.now()))
        for t in self.tasks:
            t.cancel()
        if self.pump is not None:
            self.pump.cancel()

    def data_received(self, data):
        self.buf += data
        if self.conn is not None:
            self._frames()
        elif not self.busy:
            self._request()

    # ---- HTTP
    def _request(self):
        i = self.buf.find(b'\r\n\r\n')
        if i < 0:
            return
        head = self.buf[:i].decode('latin-1').split('\r\n')
        method, target, _ = head[0].split(' ', 2)
        headers = {}
        for ln in head[1:]:
            k, _, v = ln.partition(':')
            headers[k.strip()] = v.strip()
        low = {k.lower(): v for k, v in headers.items()}
        n = int(low.get('content-length', '0') or 0)
        if len(self.buf) < i + 4 + n:
            return
        body = self.buf[i + 4:i + 4 + n]
        self.buf = self.buf[i + 4 + n:]
        self.busy = True
        is_ws = low.get('upgrade', '').lower() == 'websocket'
        scheme = self.scheme if not is_ws else \
            {'http': 'ws', 'https': 'wss'}[self.scheme]
        url = '%s://%s%s' % (scheme, low.get('host', ''), target)
        t = self.loop.create_task(
            self._serve_ws(url, headers, low) if is_ws else
            self._serve(method, url, headers, body))
        self.tasks.append(t)

    def _respond(self, status, body=b'', extra=()):
        if isinstance(body, str):
            body = body.encode('utf-8')
        head = 'HTTP/1.1 %d %s\r\n' % (status, REASONS.get(status, 'Status'))
        hs = [('Content-Type', 'text/plain; charset=UTF-8'),
              ('Content-Length', str(len(body)))] + list(extra)
        head += ''.join('%s: %s\r\n' % h for h in hs) + '\r\n'
        if self.tr is not None and not self.tr.is_closing():
            self.tr.write(head.encode('latin-1') + body)

    async def _serve(self, method, url, headers, body):
        try:
            r = await self.srv.ahttp(method, url, headers,
                                     body if method == 'POST' else None,
                                     None)
        except _cli.PeerRefused:
            # the connection goes away without an answer
            if self.tr is not None:
                self.tr.close()
            return
        body = r.body if r.body is not None else b''
        self._respond(r.status, body,
                      list((getattr(r, 'headers', None) or {}).items()))
        self.busy = False
        if self.buf:
            self._request()

    # ---- WebSocket
    async def _serve_ws(self, url, headers, low):
        try:
            conn = await self.srv.aws_connect(url, headers, None)
        except _cli.PeerBadStatus as e:
            self._respond(e.status, b'refused')
            self.busy = False
            return
        except _cli.PeerRefused:
            if self.tr is not None:
                self.tr.close()
            return
        key = low.get('sec-websocket-key', '').encode()
        accept = base64.b64encode(hashlib.sha1(key + GUID).digest()).decode()
        head = ('HTTP/1.1 101 Switching Protocols\r\nUpgrade: websocket\r\n'
                'Connection: Upgrade\r\nSec-WebSocket-Accept: %s\r\n\r\n' %
                accept)
        self.tr.write(head.encode('latin-1'))
        self.conn = conn
        # "the client's writes fail from now on": its end of the pipe reports
        # a closing transport to aiohttp's writer (what a reset connection
        # looks like to the sender), while what is already in flight to it is
        # still delivered
        conn.on_send_fails = self._client_writes_fail
        if conn.send_fails:
            self._client_writes_fail()
        self.pump = self.loop.create_task(self._pump(conn))
        if self.buf:
            self._frames()

    def _client_writes_fail(self):
        peer = getattr(self.tr, 'peer', None)
        if peer is not None:
            peer.closing = True

    async def _pump(self, conn):
        """server -> client frames, as the scripted server pushes them"""
        while True:
            item = await conn.to_client.get()
            if self.tr is None or self.tr.is_closing():
                return
            if item is _cli.CLOSED:
                self.tr.write(server_frame(8, struct.pack('!H', 1000)))
                self.tr.close()
                return
            if isinstance(item, (bytes, bytearray)):
                self.tr.write(server_frame(2, bytes(item)))
            else:
                self.tr.write(server_frame(1, item.encode('utf-8')))

    def _frames(self):
        while True:
            b = self.buf
            if len(b) < 2:
                return
            fin, op = b[0] & 0x80, b[0] & 0x0f
            masked, n = b[1] & 0x80, b[1] & 0x7f
            off = 2
            if n == 126:
                if len(b) < 4:
                    return
                n = struct.unpack('!H', b[2:4])[0]
                off = 4
            elif n == 127:
                if len(b) < 10:
                    return
                n = struct.unpack('!Q', b[2:10])[0]
                off = 10
            mask = b''
            if masked:
                if len(b) < off + 4:
                    return
                mask = b[off:off + 4]
                off += 4
            if len(b) < off + n:
                return
            payload = b[off:off + n]
            self.buf = b[off + n:]
            if mask and mask != b'\x00\x00\x00\x00':
                payload = bytes(c ^ mask[i & 3]
                                for i, c in enumerate(payload))
            if op == 0 and self.frag is not None:
                self.frag[1] += payload
                if not fin:
                    continue
                op, payload = self.frag[0], bytes(self.frag[1])
                self.frag = None
            elif op in (1, 2) and not fin:
                self.frag = [op, bytearray(payload)]
                continue
            self._client_frame(op, payload)

    def _client_frame(self, op, payload):
        conn = self.conn
        if op == 8:
            if not conn.client_closed:
                conn.client_closed = True
                self.srv.ws_events.append(('client-close', self.srv.now()))
            if self.tr is not None and not self.tr.is_closing():
                self.tr.write(server_frame(8, payload[:2]))
                self.tr.close()
            return
        if op == 9:
            self.tr.write(server_frame(10, payload))
            return
        if op == 10:
            return
        frame = payload.decode('utf-8') if op == 1 else bytes(payload)
        if conn.server_closed or getattr(conn, 'send_fails', False):
            # the client's writes fail: the connection is reset
            if self.tr is not None:
                self.tr.close()
            return
        self.srv.on_frame(conn, frame)

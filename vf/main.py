"""Runner: ./check <ID> quick|thorough | --replay <file>.

A check module (vf/checks/cNN.py) provides
  PROPERTY, LEVEL, RULE, ASSUMPTIONS, REQUIRED (counter names that must be >0)
  plan(tier, seed) -> list of JSON-able shard specs
  run_shard(spec) -> Rec.result() dict          (executed in a worker subprocess)
  replay(case) -> list of violation dicts        (optional; default re-runs run_case)
Verdicts are three valued: exit 0 held / exit 1 VIOLATION / exit 2 INCONCLUSIVE.
"""
import importlib
import json
import os
import subprocess
import sys
import tempfile
import time
from concurrent.futures import ThreadPoolExecutor

HOME = os.environ.get('VERIF_HOME', os.path.dirname(os.path.dirname(
    os.path.abspath(__file__))))
KNOWN_FILE = os.path.join(HOME, 'KNOWN_FINDINGS.txt')


def load_known():
    known = {}
    if os.path.exists(KNOWN_FILE):
        for line in open(KNOWN_FILE):
            line = line.strip()
            if not line.startswith('known:'):
                continue
            parts = line[len('known:'):].split()
            prop = key = None
            rest = []
            for p in parts:
                if p.startswith('property=') and prop is None:
                    prop = p[9:]
                elif p.startswith('key=') and key is None:
                    key = p[4:]
                else:
                    rest.append(p)
            if prop and key:
                known[(prop, key)] = ' '.join(rest)
    return known


def tree_id():
    src = os.environ.get('VERIF_REPO_SRC', '/repo/src')
    try:
        top = subprocess.run(['git', '-C', src, 'rev-parse', '--show-toplevel'],
                             capture_output=True, text=True, timeout=20)
        if top.returncode != 0:
            return 'no-git:' + src
        d = subprocess.run(['git', '-C', top.stdout.strip(), 'describe',
                            '--always', '--dirty'], capture_output=True,
                           text=True, timeout=20)
        return d.stdout.strip() or 'unknown'
    except Exception as e:  # pragma: no cover
        return 'unknown:%s' % e


def run_one_shard(cid, spec, timeout, tmpdir, idx):
    sf = os.path.join(tmpdir, 'shard%d.json' % idx)
    rf = os.path.join(tmpdir, 'result%d.json' % idx)
    with open(sf, 'w') as f:
        json.dump(spec, f)
    t0 = time.time()
    try:
        p = subprocess.run([sys.executable, '-m', 'vf.worker', cid, sf, rf],
                           capture_output=True, text=True, timeout=timeout)
    except subprocess.TimeoutExpired as e:
        tail = ''
        try:
            tail = (e.stderr or b'')[-1500:].decode('utf-8', 'replace') \
                if isinstance(e.stderr, bytes) else (e.stderr or '')[-1500:]
        except Exception:
            pass
        return {'inconclusive': ['shard %d watchdog fired after %ss %s'
                                 % (idx, timeout, tail)], 'spec': spec}
    if not os.path.exists(rf):
        return {'inconclusive': ['shard %d worker died rc=%s stderr=%s' % (
            idx, p.returncode, p.stderr[-3000:])], 'spec': spec}
    with open(rf) as f:
        res = json.load(f)
    res['wall'] = time.time() - t0
    res['stderr_tail'] = p.stderr[-2000:]
    return res


def merge(results):
    out = {'evaluations': 0, 'keys': set(), 'violations': [],
           'nviolations': 0, 'counters': {}, 'samples': [],
           'inconclusive': [], 'extra': {}}
    for r in results:
        out['evaluations'] += r.get('evaluations', 0)
        out['keys'].update(r.get('keys', []))
        out['violations'].extend(r.get('violations', []))
        out['nviolations'] += r.get('nviolations', len(r.get('violations', [])))
        for k, v in r.get('counters', {}).items():
            out['counters'][k] = out['counters'].get(k, 0) + v
        for s in r.get('samples', []):
            if len(out['samples']) < 12:
                out['samples'].append(s)
        out['inconclusive'].extend(r.get('inconclusive', []))
        for k, v in r.get('extra', {}).items():
            cur = out['extra'].get(k)
            if isinstance(v, list):
                out['extra'][k] = (cur or []) + v
            elif isinstance(v, bool):
                out['extra'][k] = v if cur is None else (cur and v)
            elif isinstance(v, (int, float)):
                out['extra'][k] = (cur or 0) + v
            else:
                out['extra'][k] = v
    return out


def main(argv):
    if len(argv) < 2:
        print(__doc__)
        return 2
    cid = argv[0].upper()
    mod = importlib.import_module('vf.checks.' + cid.lower())
    if argv[1] == '--replay':
        with open(argv[2]) as f:
            rep = json.load(f)
        viols = mod.replay(rep['case'])
        for v in viols:
            print('REPLAY-VIOLATION property=%s key=%s %s' % (
                cid, v['key'], v['msg']))
        print('replay: %d violation(s)' % len(viols))
        return 1 if viols else 0
    tier = argv[1]
    if tier not in ('quick', 'thorough'):
        print('tier must be quick|thorough')
        return 2
    tier = os.environ.get('VERIF_TIER', tier) if False else tier
    seed = int(os.environ.get('VERIF_SEED', '1'))
    t0 = time.time()
    shards = mod.plan(tier, seed)
    timeout = getattr(mod, 'SHARD_TIMEOUT', {}).get(
        tier, 600 if tier == 'quick' else 3600)
    tmpdir = tempfile.mkdtemp(prefix='vf-%s-' % cid)
    try:
        workers = min(int(os.environ.get('VERIF_WORKERS', '16')),
                      max(1, len(shards)))
        with ThreadPoolExecutor(max_workers=workers) as ex:
            futs = [ex.submit(run_one_shard, cid, s, timeout, tmpdir, i)
                    for i, s in enumerate(shards)]
            results = [f.result() for f in futs]
    finally:
        import shutil
        shutil.rmtree(tmpdir, ignore_errors=True)
    m = merge(results)
    known = load_known()
    # classify violations
    new, seen_known = [], {}
    for v in m['violations']:
        k = (cid, v['key'])
        if k in known:
            seen_known.setdefault(v['key'], v)
        else:
            new.append(v)
    # required counters
    for name in getattr(mod, 'REQUIRED', []):
        if m['counters'].get(name, 0) <= 0:
            m['inconclusive'].append('deciding monitor %r evaluated 0 times'
                                     % name)
    if not m['samples']:
        m['inconclusive'].append('no sample case was recorded')
    wall = time.time() - t0
    nontrivial = len(m['keys'])
    cov = {
        'evaluations': m['evaluations'],
        'distinct_nontrivial': nontrivial,
        'rule': mod.RULE,
        'samples': m['samples'][:12],
        'oracle_evaluations': m['counters'],
        'shards': len(shards),
        'tree': tree_id(),
        'repo_src': os.environ.get('VERIF_REPO_SRC', '/repo/src'),
        'known_findings_reproduced': sorted(seen_known),
        'unlisted_violations': len(new),
        'inconclusive': m['inconclusive'][:5],
    }
    cov.update(m['extra'])
    if hasattr(mod, 'finalize'):
        mod.finalize(cov, m, tier)
    ev = {
        'property_id': cid, 'tier': tier, 'seed': seed, 'level': mod.LEVEL,
        'coverage': cov, 'assumptions': mod.ASSUMPTIONS,
        'wall_s': round(wall, 2), 'violations': len(new),
    }
    evdir = os.environ.get('VERIF_EVIDENCE_DIR') or os.path.join(HOME,
                                                                  'evidence')
    os.makedirs(evdir, exist_ok=True)
    with open(os.path.join(evdir, cid + '.json'), 'w') as f:
        json.dump(ev, f, indent=1, sort_keys=True, default=str)
    print('%s %s seed=%d: %d evaluations, %d distinct non-trivial, '
          '%d shards, %.1fs' % (cid, tier, seed, m['evaluations'], nontrivial,
                                len(shards), wall))
    print('oracle evaluations: ' + ', '.join(
        '%s=%d' % kv for kv in sorted(m['counters'].items())))
    for key, v in sorted(seen_known.items()):
        print('KNOWN-FINDING: property=%s %s [key=%s] e.g. %s' % (
            cid, known[(cid, key)], key, v['msg'][:200]))
    for (pid, key), text in sorted(known.items()):
        if pid == cid and key not in seen_known:
            # listed, but this run did not reproduce it (several need the
            # thorough tier, pre-emptive schedules or a rare interleaving)
            print('KNOWN-FINDING: property=%s %s [key=%s] (listed in '
                  'KNOWN_FINDINGS.txt; not reproduced by this %s run)' % (
                      cid, text, key, tier))
    rc = 0
    if new:
        rdir = os.path.join(os.environ.get('VERIF_EVIDENCE_DIR') or
                            os.path.join(HOME, 'out'), 'replay')
        os.makedirs(rdir, exist_ok=True)
        shown = {}
        for v in new:
            shown.setdefault(v['key'], []).append(v)
        n = 0
        for key, vs in sorted(shown.items()):
            v = vs[0]
            path = os.path.join(rdir, '%s-%s-%d.json' % (
                cid, ''.join(c if c.isalnum() else '_' for c in key)[:60], n))
            n += 1
            with open(path, 'w') as f:
                json.dump({'check': cid, 'key': key, 'msg': v['msg'],
                           'case': v.get('case')}, f, indent=1, default=str)
            print('VIOLATION property=%s replay=%s' % (cid, path))
            print('  key=%s (%d witnesses) %s' % (key, len(vs), v['msg'][:600]))
        rc = 1
    if m['inconclusive']:
        for s in m['inconclusive'][:5]:
            print('INCONCLUSIVE property=%s %s' % (cid, s[:1500]))
        if rc == 0:
            rc = 2
    if rc == 0:
        print('HELD property=%s on everything explored' % cid)
    return rc


if __name__ == '__main__':
    sys.exit(main(sys.argv[1:]))

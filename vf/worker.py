"""Worker subprocess: python -m vf.worker <ID> <shard.json> <result.json>."""
import faulthandler
import importlib
import json
import os
import sys
import traceback


def main():
    cid, sf, rf = sys.argv[1:4]
    faulthandler.enable()
    src = os.environ.get('VERIF_REPO_SRC', '/repo/src')
    import engineio
    if not os.path.abspath(engineio.__file__).startswith(
            os.path.abspath(src)):
        res = {'inconclusive': ['engineio imported from %s, not from %s' % (
            engineio.__file__, src)]}
    else:
        mod = importlib.import_module('vf.checks.' + cid.lower())
        from vf import scen
        scen.start_stall_watch(rf, cid)
        with open(sf) as f:
            spec = json.load(f)
        try:
            res = mod.run_shard(spec)
            # evidence: how many distinct interleavings (scheduler choice
            # sequences) the threaded engine executed in this shard
            try:
                from vf import vsched
                if vsched.STATS['runs']:
                    ex = res.setdefault('extra', {})
                    ex['scheduler_runs'] = vsched.STATS['runs']
                    ex['scheduler_choices'] = vsched.STATS['choices']
                    ex['distinct_schedule_signatures'] = len(vsched.SIGS)
                from vf import vloop
                if vloop.STATS['runs']:
                    ex = res.setdefault('extra', {})
                    ex['asyncio_loop_runs'] = vloop.STATS['runs']
                    ex['asyncio_loop_iterations'] = vloop.STATS['iterations']
            except Exception:
                pass
        except BaseException:
            res = {'inconclusive': ['harness exception in shard %r: %s' % (
                spec, traceback.format_exc()[-3000:])]}
    with open(rf + '.tmp', 'w') as f:
        json.dump(res, f, default=str)
    os.replace(rf + '.tmp', rf)
    sys.stdout.flush()
    sys.stderr.flush()
    if os.environ.get('COVERAGE_PROCESS_START'):
        # tools/coverage.sh: line coverage of the package under the workloads
        try:
            import coverage
            cov = coverage.Coverage.current()
            if cov is not None:
                cov.stop()
                cov.save()
        except Exception:
            pass
    os._exit(0)


if __name__ == '__main__':
    main()

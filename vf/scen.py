"""Helpers shared by the server-side checks."""
import traceback

from vf.rec import Rec


# engines whose client side speaks HTTP/1.1 + RFC 6455 bytes to a real web
# server (H: aiohttp, N: tornado)
HTTPB = ('H', 'N')


def make_sim(kind, **kw):
    import os
    if kind == 'T' and (os.environ.get('VERIF_T_AS_W') or
                        kw.pop('real_ws_driver', False)):
        kind = 'W'      # (survey switch / the caller's choice)
    kw.pop('real_ws_driver', None)
    if kind in ('T', 'W'):
        kw.pop('body_chunks', None)
        kw.pop('async_handlers_coro', None)
        if kind == 'W':
            # the threaded server with the real simple_websocket driver
            from vf.simw import SimW
            if CURRENT['rec'] is not None:
                CURRENT['rec'].count('engine_simple_websocket')
            sim = SimW(**kw)
            from vf import rec as _rec
            _rec.WSIMS.append(sim)
            del _rec.WSIMS[:-4]     # (the sims of the current case)
            return sim
        from vf.simt import SimT
        return SimT(**kw)
    from vf.sima import SimA
    kw.pop('policy', None)
    kw.pop('seed', None)
    kw.pop('prefix', None)
    kw.pop('yield_prob', None)
    kw.pop('backend', None)
    kw.pop('ws_close_mode', None)
    kw.pop('ws_read_timeout', None)
    kw.pop('validate', None)
    if kind == 'H' and os.environ.get('VERIF_H_AS_N'):
        kind = 'N'      # (survey switch: every aiohttp history on tornado)
    if CURRENT['rec'] is not None and kind in HTTPB:
        CURRENT['rec'].count('engine_' + {'H': 'aiohttp', 'N': 'tornado'}[kind])
    if kind in HTTPB:
        # the asyncio server behind the real aiohttp (H) / tornado (N)
        # adapter and web server
        if kind == 'H':
            from vf.simh import SimH as cls
        else:
            from vf.simn import SimN as cls
        kw.pop('body_chunks', None)
        sim = cls(**kw)
        # both frameworks negotiate permessage-deflate when the client offers
        # it (browsers always do): the simulated client offers it for about
        # half of the server configurations (a replay-stable choice)
        import zlib
        plain = sorted((k, v) for k, v in (kw.get('server_kwargs') or
                                           {}).items()
                       if isinstance(v, (str, int, float, bool, tuple,
                                         type(None))))
        sim.ws_offer_deflate = zlib.crc32(repr(plain).encode()) % 2 == 1
        if sim.ws_offer_deflate and CURRENT['rec'] is not None:
            CURRENT['rec'].count('sims_offering_permessage_deflate')
        return sim
    return SimA(**kw)


CURRENT = {'rec': None, 'case': None, 'result_file': None, 'prop': None}
STALL_SECONDS = 90


def start_stall_watch(result_file, prop):
    """Worker-side detector of a task of the system under test that blocks on
    a REAL primitive (an OS lock, a real sleep, real I/O) instead of a virtual
    one: the engines can then make no progress and no virtual watchdog can
    fire. If one scheduling step / loop iteration has been executing for
    STALL_SECONDS of wall time and two stack samples taken 3 s apart are
    identical, the current case is reported as a violation ('a worker stays
    blocked') with the stacks as witness, and the worker exits."""
    import json
    import os
    import sys
    import threading
    import time
    import traceback
    from vf import vsched
    CURRENT['result_file'], CURRENT['prop'] = result_file, prop
    main_id = threading.main_thread().ident

    def stacks():
        out = []
        for tid, fr in sys._current_frames().items():
            if tid == threading.get_ident():
                continue
            st = traceback.format_stack(fr)
            if any('/engineio/' in x for x in st):
                out.append(''.join(st[-6:]))
        return out

    def watch():
        while True:
            time.sleep(3)
            if not vsched.BUSY['inside'] or CURRENT['rec'] is None:
                continue
            if time.monotonic() - vsched.BUSY['t'] < STALL_SECONDS:
                continue
            t0 = vsched.BUSY['t']
            a = stacks()
            time.sleep(3)
            if vsched.BUSY['t'] != t0 or not vsched.BUSY['inside']:
                continue
            b = stacks()
            if not a or a != b:
                continue
            rec, case = CURRENT['rec'], CURRENT['case']
            rec.viol('blocked-on-a-real-primitive', 'a task of the package '
                     'has been blocked for %d s of wall time inside one '
                     'scheduling step, on something that is not one of the '
                     'injected (virtual) primitives - a real lock / sleep / '
                     'I/O call; the worker can never finish. Stack(s): %s' % (
                         STALL_SECONDS, ' || '.join(a)[-1800:]), case)
            res = rec.result()
            with open(result_file + '.tmp', 'w') as f:
                json.dump(res, f, default=str)
            os.replace(result_file + '.tmp', result_file)
            os._exit(0)
    threading.Thread(target=watch, daemon=True, name='vf-stall').start()


def run_cases(rec, cases, fn, max_harness_errors=3):
    """Run fn(rec, case) for each case; harness exceptions are inconclusive,
    never violations."""
    for case in cases:
        CURRENT['rec'], CURRENT['case'] = rec, case
        from vf import rec as _rec
        del _rec.WSIMS[:]
        try:
            fn(rec, case)
        except Exception:
            rec.inconclusive.append('harness exception on case %r: %s' % (
                case, traceback.format_exc()[-2500:]))
            if len(rec.inconclusive) >= max_harness_errors:
                break
    if not rec.samples and cases:
        # the check's own (richer) sampling did not trigger in this shard:
        # record the replayable specification of the first case it ran
        rec.sample({'case': cases[0]})


def simple_replay(fn):
    def replay(case):
        rec = Rec()
        fn(rec, case)
        return rec.violations
    return replay


def escaped(sim):
    """Exceptions that escaped background tasks of the system under test."""
    if sim.kind == 'T':
        return [(n, e) for n, e, tb in sim.sched.escaped
                if not n.startswith('req-') and not n.startswith('app-')]
    return [('loop', e) for e in sim.loop.exceptions]


def hang_signature(sim, ticket):
    """Mechanism key of a ticket that did not complete: the stack of its task.
    'close-wait-no-pending-reader' = blocked in Socket.close(wait=True) ->
    queue.join() (known finding K1); anything else is named by its frames."""
    frames = []
    if sim.kind == 'T':
        t = ticket.task
        if t is not None and t.state != 'done':
            frames = sim.sched.stack_of(t)
            if t.timer is not None:
                return 'not-hung'
    else:
        task = ticket.task
        c = task.get_coro() if task is not None and not task.done() else None
        while c is not None:
            code = getattr(c, 'cr_code', None) or getattr(c, 'gi_code', None)
            if code is None:
                # e.g. a Future / queue.join() awaitable
                frames.append(type(c).__name__)
                break
            fn = code.co_filename
            short = fn[fn.rfind('/engineio/') + 1:] if '/engineio/' in fn \
                else fn[fn.rfind('/') + 1:]
            frames.append('%s:%s' % (short, code.co_name))
            c = getattr(c, 'cr_await', None) or getattr(c, 'gi_yieldfrom',
                                                        None)
    names = [f.split(':')[-1] for f in frames]
    eng = [f for f in frames if f.startswith('engineio/')]
    if sim.kind == 'A':
        if 'wait_for' in names and 'poll' in names:
            return 'not-hung'       # a long-poll waiting with its time-out
        if 'disconnect' in names and ('wait' in names or '_wait' in names):
            # disconnect() of all clients waits for one close() task each
            import asyncio
            for task in asyncio.all_tasks(sim.loop):
                if task.done():
                    continue
                chain, c = [], task.get_coro()
                while c is not None and hasattr(c, 'cr_code'):
                    chain.append(c.cr_code.co_name)
                    c = c.cr_await
                if chain[:1] == ['close'] and 'join' in chain:
                    return 'close-wait-no-pending-reader'
    if 'close' in names and 'join' in names and \
            names.index('join') > names.index('close'):
        return 'close-wait-no-pending-reader'
    return 'hang:' + '>'.join(eng[-4:] or frames[-3:])


def dfs_schedules(run_leaf, limit):
    """Stateless depth-first enumeration of the cooperative schedules of one
    scenario on the threaded engine (CHESS style, on the real code).
    run_leaf(prefix) builds a fresh simulator with policy='fifo' and the
    forced choice prefix, runs and judges the scenario, tears it down and
    returns the scheduler's choice trace [(alternatives, chosen), ...].
    Returns (leaves explored, tree exhausted)."""
    prefix, leaves = [], 0
    while leaves < limit:
        trace = run_leaf(list(prefix))
        leaves += 1
        j = len(trace) - 1
        while j >= 0 and trace[j][1] + 1 >= trace[j][0]:
            j -= 1
        if j < 0:
            return leaves, True
        prefix = [c for n, c in trace[:j]] + [trace[j][1] + 1]
    return leaves, False

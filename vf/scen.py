"""Helpers shared by the server-side checks."""
import traceback

from vf.rec import Rec


def make_sim(kind, **kw):
    if kind == 'T':
        from vf.simt import SimT
        return SimT(**kw)
    from vf.sima import SimA
    kw.pop('policy', None)
    kw.pop('seed', None)
    kw.pop('prefix', None)
    kw.pop('yield_prob', None)
    kw.pop('backend', None)
    kw.pop('ws_close_mode', None)
    kw.pop('ws_read_timeout', None)
    kw.pop('validate', None)
    return SimA(**kw)


def run_cases(rec, cases, fn, max_harness_errors=3):
    """Run fn(rec, case) for each case; harness exceptions are inconclusive,
    never violations."""
    for case in cases:
        try:
            fn(rec, case)
        except Exception:
            rec.inconclusive.append('harness exception on case %r: %s' % (
                case, traceback.format_exc()[-2500:]))
            if len(rec.inconclusive) >= max_harness_errors:
                break


def simple_replay(fn):
    def replay(case):
        rec = Rec()
        fn(rec, case)
        return rec.violations
    return replay


def escaped(sim):
    """Exceptions that escaped background tasks of the system under test."""
    if sim.kind == 'T':
        return [(n, e) for n, e, tb in sim.sched.escaped
                if not n.startswith('req-') and not n.startswith('app-')]
    return [('loop', e) for e in sim.loop.exceptions]

"""Virtual-time asyncio event loop, stepped from outside by the scenario
driver. No real I/O: time only moves when the driver calls advance()."""
import asyncio
import asyncio.base_events
import asyncio.events
import heapq
import threading
import time as _time

from vf import vsched as _vs

EPOCH = float(2 ** 20)
STATS = {'runs': 0, 'iterations': 0}


class _Selector:
    def select(self, timeout=None):
        return []

    def close(self):
        pass


class VLoop(asyncio.base_events.BaseEventLoop):
    def __init__(self):
        super().__init__()
        self._vnow = 0.0
        self._selector = _Selector()
        self._clock_resolution = 2.0 ** -30
        self.iterations = 0
        self.exceptions = []
        self.set_exception_handler(self._on_exc)
        self.clock_reads = 0
        self.max_iterations = 5000000

    def _on_exc(self, loop, context):
        msg = context.get('message')
        exc = context.get('exception')
        if getattr(exc, '_vf_on_ticket', False):
            return      # already recorded on the request's ticket
        self.exceptions.append('%s: %r' % (msg, exc))

    def time(self):
        return self._vnow

    def wall(self):
        self.clock_reads += 1
        return EPOCH + self._vnow

    def _process_events(self, event_list):
        pass

    # ---- "file descriptors": there is no real I/O, but libraries that sit
    # on add_reader()/add_writer() (tornado's IOStream) can register for an
    # in-memory stream's pseudo-descriptor; the stream calls fd_ready() when
    # it has something to read, writers are always ready
    def add_reader(self, fd, callback, *args):
        self.__dict__.setdefault('_vreaders', {})[fd] = (callback, args)

    def remove_reader(self, fd):
        return self.__dict__.setdefault('_vreaders', {}).pop(
            fd, None) is not None

    def add_writer(self, fd, callback, *args):
        self.__dict__.setdefault('_vwriters', {})[fd] = (callback, args)
        self.call_soon(self._fd_fire, '_vwriters', fd)

    def remove_writer(self, fd):
        return self.__dict__.setdefault('_vwriters', {}).pop(
            fd, None) is not None

    def _fd_fire(self, table, fd):
        h = self.__dict__.get(table, {}).get(fd)
        if h is not None:
            h[0](*h[1])

    def fd_ready(self, fd):
        self.call_soon(self._fd_fire, '_vreaders', fd)

    def fd_writable(self, fd):
        self.call_soon(self._fd_fire, '_vwriters', fd)

    def _write_to_self(self):
        pass

    # ------------------------------------------------------------- stepping
    def _enter(self):
        self._check_closed()
        self._thread_id = threading.get_ident()
        self._old_running = asyncio.events._get_running_loop()
        asyncio.events._set_running_loop(self)

    def _leave(self):
        self._thread_id = None
        asyncio.events._set_running_loop(self._old_running)

    def _due(self):
        while self._scheduled and self._scheduled[0]._cancelled:
            h = heapq.heappop(self._scheduled)
            h._scheduled = False
            self._timer_cancelled_count = max(
                0, self._timer_cancelled_count - 1)
        return bool(self._scheduled) and \
            self._scheduled[0]._when <= self._vnow + self._clock_resolution / 2

    def busy(self):
        return bool(self._ready) or self._due()

    def step(self, n=1):
        """Run at most n loop iterations; returns number actually run."""
        self._enter()
        done = 0
        try:
            while done < n and self.busy():
                _vs.BUSY['t'] = _time.monotonic()
                _vs.BUSY['inside'] = True
                try:
                    self._run_once()
                finally:
                    _vs.BUSY['inside'] = False
                self.iterations += 1
                done += 1
                if self.iterations > self.max_iterations:
                    raise RuntimeError('iteration budget exhausted (livelock?)')
                # iterations at one and the same virtual instant
                if self._vnow != self.__dict__.get('_inst_t'):
                    self._inst_t, self._inst_n = self._vnow, 0
                self._inst_n += 1
                if self._inst_n > self.__dict__.get('max_instant', 0):
                    self.max_instant = self._inst_n
                lim = self.__dict__.get('instant_budget')
                if lim is not None and self._inst_n > lim:
                    raise RuntimeError(
                        'iteration budget exhausted (livelock?): %d '
                        'iterations while the virtual clock stands at %r' % (
                            self._inst_n, self._vnow))
        finally:
            self._leave()
        return done

    def quiesce(self):
        while self.busy():
            self.step(1000)

    def next_timer(self):
        self._due()
        return self._scheduled[0]._when if self._scheduled else None

    def advance(self, dt):
        self.advance_to(self._vnow + dt)

    def advance_to(self, target):
        while True:
            self.quiesce()
            nt = self.next_timer()
            if nt is None or nt > target:
                break
            self._vnow = max(self._vnow, nt)
        self._vnow = max(self._vnow, target)

    def run_until(self, pred, horizon):
        target = self._vnow + horizon
        while not pred():
            if self.busy():
                self.step(1)
                continue
            nt = self.next_timer()
            if nt is None or nt > target:
                if nt is not None:
                    self._vnow = max(self._vnow, target)
                return pred()
            self._vnow = max(self._vnow, nt)
        return True

    def pending_tasks(self):
        return [t for t in asyncio.all_tasks(self) if not t.done()]

    def shutdown(self):
        """Cancel everything and drain."""
        STATS['runs'] += 1
        STATS['iterations'] += self.iterations
        for _ in range(5):
            ts = self.pending_tasks()
            if not ts:
                break
            for t in ts:
                t.cancel()
            try:
                self.quiesce()
            except BaseException:
                break
        left = len(self.pending_tasks())
        try:
            self.close()
        except Exception:
            pass
        return left


class VTimeModule:
    def __init__(self, loop):
        self.loop = loop

    def time(self):
        return self.loop.wall()

    def monotonic(self):
        return self.loop.wall()

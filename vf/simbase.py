"""Common parts of the two server simulators (threaded: simT, asyncio: simA):
event log, tickets, application handlers, reference-side helpers."""
import logging
import urllib.parse

from vf import gen

QUIET = logging.getLogger('vf.quiet')
QUIET.setLevel(logging.CRITICAL + 10)
QUIET.addHandler(logging.NullHandler())
QUIET.propagate = False

PATH = '/engine.io/'
UPGRADE_SPELLINGS = [('websocket', 'Upgrade'), ('WebSocket', 'upgrade'),
                     ('WEBSOCKET', 'keep-alive, Upgrade')]


class HandlerBoom(Exception):
    """Exception injected into application handlers."""


class HandlerBoomType(TypeError):
    """Injected handler failure that is a TypeError raised by the handler's
    own body (e.g. 'bye ' + None)."""


class HandlerBoomBase(BaseException):
    """Injected handler failure that is not an Exception subclass (what
    eventlet.Timeout, gevent.Timeout or greenlet.GreenletExit are)."""


class Ticket:
    """Outcome of one asynchronous action (request, API call)."""
    def __init__(self, sim, kind, info=None):
        self.sim = sim
        self.kind = kind
        self.info = info or {}
        self.done = False
        self.status = None
        self.headers = None
        self.body = None
        self.exc = None
        self.result = None
        self.t_start = sim.now
        self.c_start = sim.tick()
        self.c_enter = None
        self.t_end = None
        self.c_end = None
        self.proto = []          # gateway protocol violations
        self.reads = []          # sizes asked of the body reader
        self.read_bytes = 0
        self.task = None
        self.ws = None
        self.on_done = None

    def finish(self):
        self.done = True
        self.t_end = self.sim.now
        self.c_end = self.sim.tick()
        if self.on_done is not None:
            try:
                self.on_done(self)
            except Exception as e:      # harness error, surfaced by checks
                self.sim.app_errors.append('on_done: %r' % (e,))

    @property
    def code(self):
        if self.status is None:
            return None
        try:
            return int(str(self.status).split(' ')[0])
        except ValueError:
            return -1

    def header(self, name):
        for k, v in self.headers or []:
            if k.lower() == name.lower():
                return v
        return None

    def header_all(self, name):
        return [v for k, v in self.headers or [] if k.lower() == name.lower()]

    def text(self):
        return (self.body or b'').decode('utf-8')

    def payload_text(self):
        """The body as a client reads it: the declared Content-Encoding
        undone, then UTF-8."""
        import gzip
        import zlib
        body = self.body or b''
        ce = self.header('Content-Encoding')
        if ce == 'gzip':
            body = gzip.decompress(body)
        elif ce == 'deflate':
            body = zlib.decompress(body)
        return body.decode('utf-8')

    def __repr__(self):
        return '<Ticket %s %s done=%s status=%s>' % (
            self.kind, self.info, self.done, self.status)


class Handle:
    """Client-side knowledge of one session."""
    def __init__(self, n):
        self.n = n
        self.sid = None
        self.open = None
        self.open_ticket = None
        self.ws = None
        self.mode = 'polling'
        self.first_packets = []


class SimBase:
    kind = '?'

    def _init_base(self, handler_cfg=None):
        self.clk = 0
        self.events = []         # handler log: dicts
        self.tickets = []
        self.handles = []
        self.cfg = handler_cfg or {}
        self.connect_script = list(self.cfg.get('connect', []))
        self.nconnect = 0
        self.boom = dict(self.cfg.get('boom', {}))   # event index -> True
        # 'boom_base': injected failures derive from BaseException only
        # 'legacy_disconnect': the disconnect handler takes (sid) only - its
        #     reason is then unobservable and logged as '?legacy'
        # 'suspend': {'message'|'disconnect': dt} - the handler blocks /
        #     awaits for dt of virtual time after it has been entered
        # 'boom_type': 'typeerror' - the handler body fails with a TypeError
        #     (the exception type the legacy-signature retry looks for)
        self.boom_exc = HandlerBoomBase if self.cfg.get('boom_base') \
            else HandlerBoomType if self.cfg.get('boom_type') == 'typeerror' \
            else HandlerBoom
        self.legacy_disconnect = bool(self.cfg.get('legacy_disconnect'))
        self.suspend = dict(self.cfg.get('suspend', {}))
        self.nevent = 0
        self.sid_order = {}
        self.on_event = None
        self.app_errors = []

    def tick(self):
        self.clk += 1
        return self.clk

    def sidn(self, sid):
        return self.sid_order.get(sid, sid)

    # -- application handlers (shared logic; wrapped sync/async per sim) ----
    def _h_connect(self, sid, environ):
        self.sid_order.setdefault(sid, len(self.sid_order))
        idx = self.nconnect
        self.nconnect += 1
        self.events.append({'clk': self.tick(), 't': self.now, 'ev': 'connect',
                            'sid': sid, 'idx': idx})
        if self.on_event:
            self.on_event('connect', sid, environ)
        self._connect_idx = idx
        if idx < len(self.connect_script):
            out = self.connect_script[idx]
            if out == 'raise':
                raise HandlerBoom('connect')
            if out == 'raise-type':
                raise HandlerBoomType('connect')
            if out == 'raise-base':
                # (a failure that is not an Exception subclass: a time-out
                # of the concurrency library, a cancelled future's result)
                raise HandlerBoomBase('connect')
            return out
        return None

    # the message / disconnect handlers are split in "entered" (logged: the
    # event has fired) and "leaving" (where an injected failure is raised) so
    # that the simulators can suspend the handler in between
    def _log_message(self, sid, data):
        i = self.nevent
        self.nevent += 1
        if self.cfg.get('mutate_payloads') and isinstance(data, (dict, list)):
            # an application that changes the object it is handed (the log
            # keeps what it was handed)
            import copy
            given = copy.deepcopy(data)
            if isinstance(data, dict):
                data['seen-by-handler'] = True
                data.pop('op', None)
            else:
                data.append('seen-by-handler')
            data = given
        self.events.append({'clk': self.tick(), 't': self.now, 'ev': 'message',
                            'sid': sid, 'data': data})
        if self.on_event:
            self.on_event('message', sid, data)
        return i

    def _log_disconnect(self, sid, reason):
        i = self.nevent
        self.nevent += 1
        self.events.append({'clk': self.tick(), 't': self.now,
                            'ev': 'disconnect', 'sid': sid, 'reason': reason,
                            'true_reason': getattr(self, 'true_reason',
                                                   {}).get(sid, reason)})
        if self.on_event:
            self.on_event('disconnect', sid, reason)
        return i

    def _maybe_boom(self, ev, i):
        if self.boom.get('%s:%d' % (ev, i)) or self.boom.get(ev + ':*'):
            self.nboom = getattr(self, 'nboom', 0) + 1
            raise self.boom_exc(ev)

    def _h_message(self, sid, data):
        self._maybe_boom('message', self._log_message(sid, data))

    def _h_disconnect(self, sid, reason):
        self._maybe_boom('disconnect', self._log_disconnect(sid, reason))

    def events_of(self, sid):
        return [e for e in self.events if e['sid'] == sid]

    # -- request helpers ----------------------------------------------------
    @staticmethod
    def qs(q):
        if isinstance(q, str):
            return q
        return urllib.parse.urlencode(q, doseq=True)

    def open_polling(self, extra_q=None, headers=None):
        q = {'transport': 'polling', 'EIO': '4'}
        q.update(extra_q or {})
        t = self.request('GET', q, headers or {})
        self.quiesce()
        h = Handle(len(self.handles))
        h.open_ticket = t
        self.handles.append(h)
        if t.done and t.code == 200 and t.body:
            try:
                pk = decode_payload(t.payload_text(), q.get('j'))
                if pk and pk[0][0] == 0 and isinstance(pk[0][1], dict):
                    h.open = pk[0][1]
                    h.sid = h.open.get('sid')
                    h.first_packets = pk[1:]
            except Exception:
                pass
        return h

    def open_ws(self, extra_q=None, headers=None):
        q = {'transport': 'websocket', 'EIO': '4'}
        q.update(extra_q or {})
        ws, t = self.ws_request(q, headers)
        self.quiesce()
        h = Handle(len(self.handles))
        h.open_ticket = t
        h.ws = ws
        h.mode = 'websocket'
        self.handles.append(h)
        if ws.frames:
            f = ws.frames[0]['frame']
            try:
                tp, data = decode_packet(f)
                if tp == 0 and isinstance(data, dict):
                    h.open = data
                    h.sid = data.get('sid')
            except Exception:
                pass
        return h

    def ws_request(self, q, headers=None, upgrade_headers=True):
        hd = {}
        if upgrade_headers:
            # header values are case-insensitive tokens (RFC 6455 / 7230);
            # a check may select another spelling for all handshakes of a run
            up, conn = UPGRADE_SPELLINGS[getattr(self, 'upgrade_spelling', 0)
                                         % len(UPGRADE_SPELLINGS)]
            hd = {'Upgrade': up, 'Connection': conn}
        hd.update(headers or {})
        ws = self.new_ws()
        t = self.request('GET', q, hd, ws=ws)
        t.ws = ws
        ws.ticket = t
        return ws, t

    def poll(self, h, extra_q=None, headers=None):
        q = {'transport': 'polling', 'EIO': '4', 'sid': h.sid}
        q.update(extra_q or {})
        hd = dict(getattr(self, 'poll_headers', None) or {})
        hd.update(headers or {})
        return self.request('GET', q, hd)

    def post(self, h, body, declared=None, extra_q=None, headers=None):
        q = {'transport': 'polling', 'EIO': '4', 'sid': h.sid}
        q.update(extra_q or {})
        if isinstance(body, str):
            body = body.encode('utf-8')
        return self.request('POST', q, headers or {}, body=body,
                            declared=declared)

    def upgrade_ws(self, h, headers=None):
        q = {'transport': 'websocket', 'EIO': '4', 'sid': h.sid}
        return self.ws_request(q, headers)

    def do_upgrade(self, h):
        """Perform the complete, correct probe handshake. Returns (ws, ok)."""
        ws, t = self.upgrade_ws(h)
        self.quiesce()
        if not ws.accepted:
            return ws, False
        ws.send('2probe')
        self.quiesce()
        if not any(f['frame'] == '3probe' for f in ws.frames):
            return ws, False
        ws.send('5')
        self.quiesce()
        h.ws = ws
        h.mode = 'websocket'
        return ws, True


def decode_packet(frame):
    """Reference decoding of one frame / piece -> (type, data)."""
    import base64
    if isinstance(frame, (bytes, bytearray)):
        return (4, bytes(frame))
    if frame[:1] == 'b':
        return (4, base64.b64decode(frame[1:]))
    tp = int(frame[0])
    return (tp, gen.expected_text_decode(frame[1:]))


def decode_payload(text, jsonp=None):
    if jsonp is not None:
        raise ValueError('jsonp body: use vf.jsonp')
    if text == '':
        return []
    return [decode_packet(p) for p in text.split(gen.SEP)]

"""Client-side engines: the real engineio.Client under the virtual scheduler
(cliT) and the real engineio.AsyncClient on the virtual loop (cliA), talking
through fake transports (requests-like session / websocket-client-like module;
aiohttp-like session) to a peer: either the ScriptedServer below (C08, C09) or
the real servers of simT / simA (C10).

The peer interface used by the fakes:
  peer.http(method, url, headers, body, timeout) -> Resp | raises PeerRefused
       (threaded peers may block on virtual primitives; asyncio peers are
        awaited: peer.ahttp(...))
  peer.ws_connect(url, headers, timeout) -> connection object with
       send(frame), recv(timeout) -> frame | raises WsClosed/WsTimeout, close()
"""
import json
import types
import urllib.parse

from vf import gen, vsched


class PeerRefused(Exception):
    pass


class PeerLostResponse(PeerRefused):
    """The server received (and processed) the request; the connection went
    away before its answer."""


class PeerBadStatus(PeerRefused):
    """The server answered the WebSocket handshake with an HTTP status other
    than 101."""
    def __init__(self, status):
        super().__init__('handshake status %d' % status)
        self.status = status


class WsClosed(Exception):
    pass


class WsTimeout(Exception):
    pass


class Resp:
    def __init__(self, status, body=b'', headers=None):
        self.status = status
        self.body = body if isinstance(body, bytes) else body.encode('utf-8')
        self.headers = headers or {}


# --------------------------------------------------------------------------
# fakes for the threaded client
# --------------------------------------------------------------------------
class FakeRequestsModule:
    class exceptions:
        class RequestException(IOError):
            pass

    class Session:
        pass


class FakeResponse:
    def __init__(self, r):
        self.status_code = r.status
        self.content = r.body
        self.headers = r.headers

    def json(self):
        from engineio.json import JSONDecodeError
        try:
            return json.loads(self.content.decode('utf-8'))
        except ValueError:
            raise JSONDecodeError('bad', '', 0)


class FakeSession:
    """requests.Session work-alike handed to Client(http_session=...)."""
    def __init__(self, peer, log):
        self.peer = peer
        self.log = log
        self.verify = True
        self.auth = None
        self.cert = None
        self.proxies = {}
        self.cookies = []

    def request(self, method, url, headers=None, data=None, timeout=None):
        self.log.append({'kind': 'http', 'method': method, 'url': url,
                         'headers': dict(headers or {}), 'body': data,
                         'timeout': timeout, 't': self.peer.now()})
        try:
            r = self.peer.http(method, url, headers or {}, data, timeout)
        except PeerRefused as e:
            raise FakeRequestsModule.exceptions.RequestException(str(e))
        return FakeResponse(r)


def make_fake_websocket_module(peer, log):
    m = types.SimpleNamespace()

    class WebSocketException(Exception):
        pass

    class WebSocketTimeoutException(WebSocketException):
        pass

    class WebSocketConnectionClosedException(WebSocketException):
        pass

    class WebSocketBadStatusException(WebSocketException):
        pass

    class WS:
        def __init__(self, conn):
            self.conn = conn
            self.connected = True
            self.timeout = None

        def settimeout(self, t):
            self.timeout = t

        def send(self, data):
            # websocket-client sends whatever it is given as a TEXT frame
            if isinstance(data, (bytes, bytearray)):
                data = bytes(data).decode('utf-8', 'replace')
            log.append({'kind': 'ws-send', 'frame': data, 'binary': False,
                        't': peer.now()})
            try:
                self.conn.send(data)
            except WsClosed:
                self.connected = False
                raise WebSocketConnectionClosedException('closed')

        def send_binary(self, data):
            log.append({'kind': 'ws-send', 'frame': data, 'binary': True,
                        't': peer.now()})
            try:
                self.conn.send(bytes(data))
            except WsClosed:
                self.connected = False
                raise WebSocketConnectionClosedException('closed')

        def recv(self):
            try:
                return self.conn.recv(self.timeout)
            except WsTimeout:
                raise WebSocketTimeoutException('timed out')
            except WsClosed:
                self.connected = False
                raise WebSocketConnectionClosedException('closed')

        def close(self):
            self.connected = False
            self.conn.close()

    def create_connection(url, **opts):
        log.append({'kind': 'ws-connect', 'url': url,
                    'timeout': opts.get('timeout'),
                    'headers': dict(opts.get('header') or {}),
                    't': peer.now()})
        try:
            conn = peer.ws_connect(url, opts.get('header') or {},
                                   opts.get('timeout'))
        except PeerBadStatus as e:
            # websocket-client: WebSocketBadStatusException
            raise WebSocketBadStatusException(str(e))
        except PeerRefused as e:
            raise ConnectionError(str(e))
        w = WS(conn)
        w.timeout = opts.get('timeout')
        return w
    m.WebSocketException = WebSocketException
    m.WebSocketTimeoutException = WebSocketTimeoutException
    m.WebSocketConnectionClosedException = WebSocketConnectionClosedException
    m.WebSocketBadStatusException = WebSocketBadStatusException
    m.create_connection = create_connection
    return m


class FakeThreadingModule:
    """Stands in for `threading` inside engineio.client."""
    def __init__(self, sched):
        self.sched = sched
        self._main = object()

    def Thread(self, *a, **k):
        return vsched.VThread(self.sched, *a, **k)

    def Event(self, *a, **k):
        return vsched.VEvent(self.sched)

    def current_thread(self):
        return self._main

    def main_thread(self):
        return self._main


class FakeQueueModule:
    Empty = vsched.VQueue.Empty

    def __init__(self, sched):
        self.sched = sched

    def Queue(self, *a, **k):
        return vsched.VQueue(self.sched, *a, **k)


def _collect_abandoned_sockets(client, peer, is_async):
    """The clients do not close the socket of an upgrade attempt they give
    up: they drop their last reference to it and the connection goes when the
    object is collected (websocket-client's socket, aiohttp's response). The
    harness does what the collector does, at the moment the attempt is given
    up and independently of the interpreter's collection order: when
    _connect_websocket() reports a failed attempt, every connection the
    client object does not refer to any more is closed."""
    orig = client._connect_websocket

    def collect():
        cur = getattr(getattr(client, 'ws', None), 'conn', None)
        for conn in list(getattr(peer, 'ws_conns', None) or []):
            if conn is not cur and not conn.ws.client_closed:
                conn.ws.close()
                if is_async:
                    conn.inbox.put_nowait(CLOSED)
                else:
                    conn.inbox.put(CLOSED)

    if is_async:
        async def wrapped(*a, **k):
            r = await orig(*a, **k)
            if r is False:
                collect()
            return r
    else:
        def wrapped(*a, **k):
            r = orig(*a, **k)
            if r is False:
                collect()
            return r
    client._connect_websocket = wrapped


class CliT:
    """The real threaded Client on a scheduler, with an application log."""
    kind = 'T'

    def __init__(self, sched, peer, **client_kwargs):
        import engineio
        import engineio.client as ec
        import engineio.base_client as bc
        from vf.simbase import QUIET
        self.sched = sched
        self.peer = peer
        self.wire = []          # what the client put on the wire
        self.events = []
        self._saved = (ec.threading, ec.queue, ec.time, ec.requests,
                       ec.websocket, bc.time)
        self.ec, self.bc = ec, bc
        ec.threading = FakeThreadingModule(sched)
        ec.queue = FakeQueueModule(sched)
        ec.time = vsched.VTimeModule(sched)
        bc.time = vsched.VTimeModule(sched)
        ec.requests = FakeRequestsModule
        ec.websocket = make_fake_websocket_module(peer, self.wire)
        kw = dict(client_kwargs)
        kw.setdefault('logger', QUIET)
        kw.setdefault('handle_sigint', False)
        kw.pop('plain_handlers', None)
        legacy = kw.pop('legacy_disconnect', False)
        self.c = engineio.Client(http_session=FakeSession(peer, self.wire),
                                 **kw)
        _collect_abandoned_sockets(self.c, peer, False)
        self.on_connect = None
        self.on_message = None
        self.on_disconnect = None
        self.c.on('connect', self._connect)
        self.c.on('message', self._message)
        if legacy:
            # the legacy handler form without a reason argument
            self.c.on('disconnect', lambda: self._disconnect('?legacy'))
        else:
            self.c.on('disconnect', self._disconnect)
        self.clk = 0
        # boundary spy on disconnect(): when it was entered, in which state,
        # when it returned (evidence for the race classification of C08)
        self.disc_calls = []
        real_disconnect = self.c.disconnect

        def spy_disconnect(*a, **k):
            self.clk += 1
            ent = {'enter': self.clk, 'state': self.c.state, 'exit': None}
            self.disc_calls.append(ent)
            try:
                return real_disconnect(*a, **k)
            finally:
                self.clk += 1
                ent['exit'] = self.clk
        self.c.disconnect = spy_disconnect

    def reregister_disconnect(self, legacy):
        """The application registers another disconnect handler (with or
        without the reason argument) on the same client object."""
        if legacy:
            self.c.on('disconnect', lambda: self._disconnect('?legacy'))
        else:
            self.c.on('disconnect', lambda reason: self._disconnect(reason))

    def _log(self, ev, **kw):
        self.clk += 1
        d = {'ev': ev, 't': self.sched.now, 'clk': self.clk,
             'state': self.c.state}
        d.update(kw)
        self.events.append(d)

    def _connect(self):
        self._log('connect', sid=self.c.sid, transport=self.c.transport())
        if self.on_connect:
            self.on_connect()

    def _message(self, data):
        self._log('message', data=data)
        if self.on_message:
            self.on_message(data)

    def _disconnect(self, reason):
        self._log('disconnect', reason=reason)
        if self.on_disconnect:
            self.on_disconnect(reason)
        if getattr(self, 'raising_disconnect', False):
            # an application bug inside the handler
            raise RuntimeError('disconnect handler failed')

    # --- driver-side helpers: every API call runs in its own task ---------
    def call(self, name, *args, **kwargs):
        res = {'done': False, 'exc': None, 'result': None, 'name': name,
               't_start': self.sched.now}

        def run():
            try:
                res['result'] = getattr(self.c, name)(*args, **kwargs)
            except vsched.TaskKilled:
                raise
            except BaseException as e:
                res['exc'] = e
            finally:
                res['done'] = True
                res['t_end'] = self.sched.now
        res['task'] = self.sched.spawn(run, name='cli-' + name)
        return res

    def call_seq(self, name, arglist):
        """One application task issuing the calls one after the other."""
        res = {'done': False, 'exc': None, 'name': name}

        def run():
            try:
                for a in arglist:
                    getattr(self.c, name)(a)
            except vsched.TaskKilled:
                raise
            except BaseException as e:
                res['exc'] = e
            finally:
                res['done'] = True
        res['task'] = self.sched.spawn(run, name='cli-seq-' + name)
        return res

    def restore(self):
        ec, bc = self.ec, self.bc
        (ec.threading, ec.queue, ec.time, ec.requests, ec.websocket,
         bc.time) = self._saved
        try:
            bc.connected_clients.remove(self.c)
        except ValueError:
            pass


# --------------------------------------------------------------------------
# fakes for the asyncio client
# --------------------------------------------------------------------------
class AResp:
    def __init__(self, r):
        self.status = r.status
        self._body = r.body
        self.headers = r.headers

    async def read(self):
        return self._body

    async def json(self):
        import aiohttp
        try:
            return json.loads(self._body.decode('utf-8'))
        except ValueError:
            raise aiohttp.ContentTypeError(None, ())


class AWsMsg:
    def __init__(self, data, type_):
        self.data = data
        self.type = type_


class ACookieJar:
    def update_cookies(self, c):
        pass


class FakeAioSession:
    def __init__(self, peer, log):
        self.peer = peer
        self.log = log
        self.closed = False
        self.cookie_jar = ACookieJar()

    async def _do(self, method, url, headers=None, data=None, timeout=None,
                  **kw):
        import aiohttp
        import asyncio
        tot = getattr(timeout, 'total', timeout)
        self.log.append({'kind': 'http', 'method': method, 'url': url,
                         'headers': dict(headers or {}), 'body': data,
                         'timeout': tot, 't': self.peer.now()})
        try:
            if tot is not None:
                r = await asyncio.wait_for(
                    self.peer.ahttp(method, url, headers or {}, data, tot),
                    tot)
            else:
                r = await self.peer.ahttp(method, url, headers or {}, data,
                                          tot)
        except PeerLostResponse:
            # what aiohttp reports when the server closes the connection
            # instead of answering
            raise aiohttp.ServerDisconnectedError()
        except PeerRefused as e:
            raise aiohttp.ClientConnectionError(str(e))
        return AResp(r)

    async def get(self, url, **kw):
        return await self._do('GET', url, **kw)

    async def post(self, url, **kw):
        return await self._do('POST', url, **kw)

    async def close(self):
        self.closed = True

    async def ws_connect(self, url, **opts):
        import aiohttp
        self.log.append({'kind': 'ws-connect', 'url': url,
                         'timeout': opts.get('timeout'),
                         'headers': dict(opts.get('headers') or {}),
                         't': self.peer.now()})
        try:
            conn = await self.peer.aws_connect(url, opts.get('headers') or {},
                                               opts.get('timeout'))
        except PeerBadStatus as e:
            # aiohttp: WSServerHandshakeError (a ClientResponseError, not a
            # ClientConnectionError)
            import yarl
            from multidict import CIMultiDict, CIMultiDictProxy
            ri = aiohttp.RequestInfo(yarl.URL(url), 'GET',
                                     CIMultiDictProxy(CIMultiDict()),
                                     yarl.URL(url))
            raise aiohttp.client_exceptions.WSServerHandshakeError(
                ri, (), status=e.status, message='Invalid response status')
        except PeerRefused as e:
            raise aiohttp.ClientConnectionError(str(e))
        return AWs(conn, self.log, self.peer)


class AWs:
    def __init__(self, conn, log, peer):
        self.conn = conn
        self.log = log
        self.peer = peer
        self.closed = False

    async def send_str(self, s):
        if not isinstance(s, str):       # as aiohttp does
            raise TypeError('data argument must be str (%r)' % type(s))
        self.log.append({'kind': 'ws-send', 'frame': s, 'binary': False,
                         't': self.peer.now()})
        try:
            await self.conn.asend(s)
        except WsClosed:
            raise self._write_error()

    async def send_bytes(self, b):
        if not isinstance(b, (bytes, bytearray, memoryview)):
            raise TypeError('data argument must be byte-ish (%r)' % type(b))
        self.log.append({'kind': 'ws-send', 'frame': b, 'binary': True,
                         't': self.peer.now()})
        try:
            await self.conn.asend(bytes(b))
        except WsClosed:
            raise self._write_error()

    def _write_error(self):
        """What a failing frame write raises: aiohttp's own errors or - from
        the transport / TLS layer below it - a plain OSError (the peer picks
        one kind per conversation: peer.write_error_kind)."""
        import aiohttp
        import errno
        kind = getattr(self.peer, 'write_error_kind', 'disconnected')
        if kind == 'reset':
            return aiohttp.ClientConnectionResetError(
                'Cannot write to closing transport')
        if kind == 'pipe':
            return BrokenPipeError(errno.EPIPE, 'Broken pipe')
        if kind == 'timeout':
            return TimeoutError(errno.ETIMEDOUT, 'Connection timed out')
        if kind == 'unreachable':
            return OSError(errno.EHOSTUNREACH, 'No route to host')
        return aiohttp.client_exceptions.ServerDisconnectedError()

    async def receive(self):
        import aiohttp
        try:
            f = await self.conn.arecv()
        except WsClosed:
            return AWsMsg(None, aiohttp.WSMsgType.CLOSED)
        if isinstance(f, (bytes, bytearray)):
            return AWsMsg(bytes(f), aiohttp.WSMsgType.BINARY)
        return AWsMsg(f, aiohttp.WSMsgType.TEXT)

    async def close(self):
        self.closed = True
        await self.conn.aclose()


class CliA:
    kind = 'A'

    def __init__(self, loop, peer, **client_kwargs):
        import engineio
        import engineio.base_client as bc
        from vf import vloop
        from vf.simbase import QUIET
        self.loop = loop
        self.peer = peer
        self.wire = []
        self.events = []
        self.bc = bc
        self._saved = bc.time
        bc.time = vloop.VTimeModule(loop)
        kw = dict(client_kwargs)
        kw.setdefault('logger', QUIET)
        kw.setdefault('handle_sigint', False)
        plain = kw.pop('plain_handlers', False)
        legacy = kw.pop('legacy_disconnect', False)
        session_factory = kw.pop('session_factory', None)
        if session_factory is not None:
            # a REAL aiohttp.ClientSession (pair RH); it has to be created
            # inside the loop
            import asyncio
            asyncio.set_event_loop(loop)
            box = {}

            async def mk():
                box['s'] = session_factory()
            loop.create_task(mk())
            loop.quiesce()
            self.session = box['s']
        else:
            self.session = FakeAioSession(peer, self.wire)
        self.c = engineio.AsyncClient(http_session=self.session, **kw)
        _collect_abandoned_sockets(self.c, peer, True)
        self.on_connect = None
        self.on_message = None
        self.on_disconnect = None

        async def hc():
            self._log('connect', sid=self.c.sid, transport=self.c.transport())
            if self.on_connect:
                await self.on_connect()

        async def hm(data):
            self._log('message', data=data)
            if self.on_message:
                await self.on_message(data)

        async def hd(reason):
            self._log('disconnect', reason=reason)
            if self.on_disconnect:
                await self.on_disconnect(reason)
            if getattr(self, 'raising_disconnect', False):
                raise RuntimeError('disconnect handler failed')
        async def hd_legacy():
            await hd('?legacy')

        # plain-function handlers on the asyncio client (no hooks: a plain
        # function cannot await the client's coroutine API)
        def phc():
            self._log('connect', sid=self.c.sid, transport=self.c.transport())

        def phm(data):
            self._log('message', data=data)

        def phd(reason):
            self._log('disconnect', reason=reason)
            if getattr(self, 'raising_disconnect', False):
                raise RuntimeError('disconnect handler failed')

        def phd_legacy():
            phd('?legacy')
        if plain:
            self.c.on('connect', phc)
            self.c.on('message', phm)
            self.c.on('disconnect', phd_legacy if legacy else phd)
            self._dis = (phd, phd_legacy)
        else:
            self.c.on('connect', hc)
            self.c.on('message', hm)
            self.c.on('disconnect', hd_legacy if legacy else hd)
            self._dis = (hd, hd_legacy)
        self.clk = 0

    def reregister_disconnect(self, legacy):
        """(see CliT.reregister_disconnect)"""
        self.c.on('disconnect', self._dis[1] if legacy else self._dis[0])

    def _unused(self):
        pass

    def _log(self, ev, **kw):
        self.clk += 1
        d = {'ev': ev, 't': self.loop._vnow, 'clk': self.clk,
             'state': self.c.state}
        d.update(kw)
        self.events.append(d)

    def call(self, name, *args, **kwargs):
        import asyncio
        res = {'done': False, 'exc': None, 'result': None, 'name': name,
               't_start': self.loop._vnow}

        async def run():
            try:
                res['result'] = await getattr(self.c, name)(*args, **kwargs)
            except asyncio.CancelledError:
                raise
            except BaseException as e:
                res['exc'] = e
            finally:
                res['done'] = True
                res['t_end'] = self.loop._vnow
        res['task'] = self.loop.create_task(run())
        return res

    def call_seq(self, name, arglist):
        import asyncio
        res = {'done': False, 'exc': None, 'name': name}

        async def run():
            try:
                for a in arglist:
                    await getattr(self.c, name)(a)
            except asyncio.CancelledError:
                raise
            except BaseException as e:
                res['exc'] = e
            finally:
                res['done'] = True
        res['task'] = self.loop.create_task(run())
        return res

    def restore(self):
        self.bc.time = self._saved
        try:
            self.bc.connected_clients.remove(self.c)
        except ValueError:
            pass


# --------------------------------------------------------------------------
# Scripted server (peer for C08 / C09)
# --------------------------------------------------------------------------
class ScriptedServer:
    """Answers the real clients from a script and records everything.

    script keys (all optional):
      open:     'refuse' | ('status', code, body) | 'garbage' | 'empty' |
                'nonopen' | 'ok'                    (default 'ok')
      upgrades: list advertised in OPEN (default ['websocket'])
      pi, pt:   heartbeat settings advertised (seconds)
      post:     'ok' | 'fail-status' | 'refuse' | ('fail-after', n) |
                'lost-response' (processed, the answer never arrives)
      post_delay: virtual seconds a POST takes before it is answered
      limit:    packets per POST body the server accepts (default 16, like
                the package's own server); a longer body is answered 200
                and not processed, as the real servers do
      ws:       'ok' | 'refuse' | 'status403' (handshake answered 403)
      probe:    'ok' | 'wrong' | 'garbage' | 'empty' | 'silent' | 'close' |
                'upgrade-write-fails'
      ws_open:  'ok' | 'garbage' | 'nonopen' | 'close'  (websocket-only open)
    The driver pushes packets with push()/ws_push() and may drop / close.
    """
    def __init__(self, mode, clock, chan_factory, script=None):
        self.mode = mode            # 'T' | 'A'
        self.clock = clock
        self.mk = chan_factory
        self.script = dict(script or {})
        self.requests = []          # every request seen
        self.frames = []            # every client->server ws frame
        self.posts = []             # decoded POST bodies
        self.sid = 'SID' + 'x' * 17
        self.pollq = self.mk()      # payload strings for pending GETs
        self.silent = False         # stop answering polls (silence)
        self.dropped = False        # polls fail as connection errors
        self.ws = None
        self.nposts = 0
        self.opened = 0
        self.poll_status = None
        self.session_closed = False     # the client sent a CLOSE packet
        self.posts_dropped = []         # bodies over the packet limit

    def now(self):
        return self.clock()

    def open_packet(self):
        return '0' + json.dumps({
            'sid': self.sid, 'upgrades': self.script.get('upgrades',
                                                         ['websocket']),
            'pingInterval': int(self.script.get('pi', 25) * 1000),
            'pingTimeout': int(self.script.get('pt', 20) * 1000),
            'maxPayload': 1000000}, separators=(',', ':'))

    # -- decisions that never block ----------------------------------------
    def decide(self, method, url, headers, body):
        u = urllib.parse.urlsplit(url)
        q = urllib.parse.parse_qs(u.query)
        self.requests.append({'method': method, 'url': url, 'q': q,
                              'path': u.path, 'scheme': u.scheme,
                              'netloc': u.netloc, 'headers': dict(headers),
                              'body': body, 't': self.now()})
        if 'sid' not in q:
            o = self.script.get('open', 'ok')
            if method != 'GET':
                return Resp(400, '"bad"')
            if o == 'refuse':
                raise PeerRefused('connection refused')
            if isinstance(o, (list, tuple)) and o[0] == 'status':
                return Resp(o[1], o[2])
            if o == 'garbage':
                return Resp(200, 'x\x1e\x1eb!')
            if o == 'empty':
                return Resp(200, '')
            if o == 'nonopen':
                return Resp(200, '4hello')
            self.opened += 1
            extra = self.script.get('open_extra', [])
            return Resp(200, gen.SEP.join([self.open_packet()] + extra))
        if method == 'POST':
            self.nposts += 1
            p = self.script.get('post', 'ok')
            text = body if isinstance(body, str) else (body or b'').decode(
                'utf-8')
            if p == 'refuse' or self.dropped:
                raise PeerRefused('connection dropped')
            if p == 'fail-status' or (isinstance(p, (list, tuple)) and
                                      self.nposts > p[1]):
                return Resp(400, '"bad"')
            limit = self.script.get('limit', 16)
            pieces = text.split(gen.SEP)
            if limit and len(pieces) > limit:
                # what a conformant server does with too many packets
                self.posts_dropped.append({'body': text, 't': self.now()})
                return Resp(200, 'ok')
            self.posts.append({'body': text, 't': self.now()})
            if p == 'lost-response':
                # processed, but the client never sees the answer
                raise PeerLostResponse('connection lost after the request')
            if '1' in pieces and not self.session_closed:
                # a CLOSE packet ends the session on a conformant server:
                # the pending poll is released and later ones are refused
                # (the real servers answer the pending poll 200-empty)
                self.session_closed = True
                self.pollq.put(Resp(200, ''))
            return Resp(200, 'ok')
        if self.session_closed:
            return Resp(400, '"session closed"')
        return None      # a poll: the transport waits on pollq

    def push(self, *packets):
        """Hand packets (wire strings) to the polling client."""
        self.pollq.put(gen.SEP.join(packets))

    def poll_result(self, item):
        if item is None:
            raise PeerRefused('connection dropped')
        if isinstance(item, Resp):
            return item
        return Resp(200, item)


CLOSED = object()


class TConn:
    """Server end of a scripted WebSocket for the threaded client."""
    def __init__(self, srv, upgrade):
        self.srv = srv
        self.upgrade = upgrade
        self.to_client = vsched.VQueue(srv.sched)
        self.client_closed = False
        self.server_closed = False
        self.upgraded = False
        self.silent = False

    # client side
    def send(self, frame):
        if self.server_closed or getattr(self, 'send_fails', False):
            raise WsClosed()
        self.srv.on_frame(self, frame)

    def recv(self, timeout):
        if self.server_closed and self.to_client.empty():
            raise WsClosed()
        try:
            item = self.to_client.get(timeout=timeout)
        except vsched.VQueue.Empty:
            raise WsTimeout()
        if item is CLOSED:
            raise WsClosed()
        return item

    def close(self):
        self.client_closed = True
        self.srv.ws_events.append(('client-close', self.srv.now()))

    # server side (driver)
    def push(self, frame):
        if not self.client_closed and not self.server_closed:
            self.to_client.put(frame)

    def server_close(self):
        self.server_closed = True
        self.to_client.put(CLOSED)


class ScriptedT(ScriptedServer):
    def __init__(self, sched, script=None):
        self.sched = sched
        super().__init__('T', lambda: sched.now,
                         lambda: vsched.VQueue(sched), script)
        self.ws_events = []

    def http(self, method, url, headers, body, timeout):
        r = self.decide(method, url, headers, body)
        if r is not None:
            if method == 'POST' and self.script.get('post_delay'):
                vsched.vsleep(self.sched, self.script['post_delay'])
            return r
        if self.dropped:
            raise PeerRefused('connection dropped')
        try:
            item = self.pollq.get(timeout=timeout)
        except vsched.VQueue.Empty:
            raise PeerRefused('read timed out')
        return self.poll_result(item)

    def ws_connect(self, url, headers, timeout):
        u = urllib.parse.urlsplit(url)
        q = urllib.parse.parse_qs(u.query)
        self.requests.append({'method': 'WS', 'url': url, 'q': q,
                              'path': u.path, 'scheme': u.scheme,
                              'netloc': u.netloc, 'headers': dict(headers),
                              'body': None, 't': self.now()})
        if self.script.get('ws', 'ok') == 'refuse' or self.dropped:
            raise PeerRefused('ws refused')
        if self.script.get('ws') == 'status403':
            raise PeerBadStatus(403)
        conn = TConn(self, 'sid' in q)
        self.ws = conn
        if 'sid' not in q:
            self._ws_open(conn)
        return conn

    def _ws_open(self, conn):
        o = self.script.get('ws_open', 'ok')
        if o == 'ok':
            self.opened += 1
            conn.push(self.open_packet())
        elif o == 'garbage':
            conn.push('x')
        elif o == 'nonopen':
            conn.push('4hello')
        elif o == 'close':
            conn.server_close()

    def on_frame(self, conn, frame):
        self.frames.append({'frame': frame, 't': self.now(),
                            'upgrade_socket': conn.upgrade and
                            not conn.upgraded})
        if conn.upgrade and not conn.upgraded:
            if frame == '2probe':
                p = self.script.get('probe', 'ok')
                if p == 'ok':
                    conn.push('3probe')
                elif p == 'wrong':
                    conn.push('3nope')
                elif p == 'garbage':
                    # something that is not an Engine.IO packet at all
                    conn.push('x')
                elif p == 'empty':
                    conn.push('')
                elif p == 'close':
                    conn.server_close()
                elif p == 'upgrade-write-fails':
                    # the probe is answered, then the socket dies: the
                    # client's next write (the UPGRADE frame) raises
                    conn.push('3probe')
                    conn.send_fails = True
            elif frame == '5':
                conn.upgraded = True
                # release the pending poll, as the real server does
                self.pollq.put('6')


class AConn:
    def __init__(self, srv, upgrade):
        import asyncio
        self.srv = srv
        self.upgrade = upgrade
        self.to_client = asyncio.Queue()
        self.client_closed = False
        self.server_closed = False
        self.upgraded = False
        self._send_fails = False
        self.on_send_fails = None

    @property
    def send_fails(self):
        return self._send_fails

    @send_fails.setter
    def send_fails(self, v):
        # from now on the client's writes on this socket fail
        self._send_fails = v
        if v and self.on_send_fails is not None:
            self.on_send_fails()

    async def asend(self, frame):
        if self.server_closed or self.send_fails:
            raise WsClosed()
        self.srv.on_frame(self, frame)

    async def arecv(self):
        if self.server_closed and self.to_client.empty():
            raise WsClosed()
        item = await self.to_client.get()
        if item is CLOSED:
            raise WsClosed()
        return item

    async def aclose(self):
        self.client_closed = True
        self.srv.ws_events.append(('client-close', self.srv.now()))

    def push(self, frame):
        if not self.client_closed and not self.server_closed:
            self.to_client.put_nowait(frame)

    def server_close(self):
        self.server_closed = True
        self.to_client.put_nowait(CLOSED)


class AChan:
    def __init__(self):
        import asyncio
        self.q = asyncio.Queue()

    def put(self, x):
        self.q.put_nowait(x)


class ScriptedA(ScriptedServer):
    def __init__(self, loop, script=None):
        self.loop = loop
        super().__init__('A', lambda: loop._vnow, AChan, script)
        self.ws_events = []

    async def ahttp(self, method, url, headers, body, timeout):
        r = self.decide(method, url, headers, body)
        if r is not None:
            if method == 'POST' and self.script.get('post_delay'):
                import asyncio
                await asyncio.sleep(self.script['post_delay'])
            return r
        if self.dropped:
            raise PeerRefused('connection dropped')
        item = await self.pollq.q.get()
        return self.poll_result(item)

    async def aws_connect(self, url, headers, timeout):
        u = urllib.parse.urlsplit(url)
        q = urllib.parse.parse_qs(u.query)
        self.requests.append({'method': 'WS', 'url': url, 'q': q,
                              'path': u.path, 'scheme': u.scheme,
                              'netloc': u.netloc, 'headers': dict(headers),
                              'body': None, 't': self.now()})
        if self.script.get('ws', 'ok') == 'refuse' or self.dropped:
            raise PeerRefused('ws refused')
        if self.script.get('ws') == 'status403':
            raise PeerBadStatus(403)
        conn = AConn(self, 'sid' in q)
        self.ws = conn
        if 'sid' not in q:
            ScriptedT._ws_open(self, conn)
        return conn

    on_frame = ScriptedT.on_frame


class WorldT:
    """Client world (threaded): scheduler + scripted server + real Client."""
    kind = 'T'

    def __init__(self, script=None, policy='fifo', seed=0, yield_prob=0.0,
                 backend='greenlet', **client_kwargs):
        self.sched = vsched.Sched(policy, seed, None, yield_prob, backend)
        self.srv = ScriptedT(self.sched, script)
        self.cli = CliT(self.sched, self.srv, **client_kwargs)

    @property
    def now(self):
        return self.sched.now

    def quiesce(self):
        self.sched.quiesce()

    def advance(self, dt):
        self.sched.advance(dt)

    def run_until(self, pred, horizon):
        return self.sched.run_until(pred, horizon)

    def live_client_tasks(self):
        return [t.name for t in self.sched.live_tasks()
                if 'loop' in t.name or 'cli-' in t.name]

    def teardown(self):
        z = self.sched.kill_all()
        self.cli.restore()
        return z


class WorldA:
    kind = 'A'

    def __init__(self, script=None, **client_kwargs):
        from vf import vloop
        for k in ('policy', 'seed', 'yield_prob', 'backend'):
            client_kwargs.pop(k, None)
        self.loop = vloop.VLoop()
        self.srv = ScriptedA(self.loop, script)
        self.cli = CliA(self.loop, self.srv, **client_kwargs)

    @property
    def now(self):
        return self.loop._vnow

    def quiesce(self):
        self.loop.quiesce()

    def advance(self, dt):
        self.loop.advance(dt)

    def run_until(self, pred, horizon):
        return self.loop.run_until(pred, horizon)

    def live_client_tasks(self):
        out = []
        for t in self.loop.pending_tasks():
            n = getattr(t.get_coro(), '__qualname__', '')
            if 'loop' in n or 'run' in n:
                out.append(n)
        return out

    def teardown(self):
        left = self.loop.shutdown()
        self.cli.restore()
        return left


class ScriptPeer:
    """Network between a REAL aiohttp.ClientSession and the scripted server:
    every connection is an in-memory pipe to an HTTP/1.1 + RFC 6455 front-end
    (vf.httpfront) of the scripted server."""
    lat = None

    def __init__(self, loop, srv):
        self.loop = loop
        self.srv = srv
        self.connections = 0

    def now(self):
        return self.loop._vnow

    def make_session(self):
        import aiohttp
        from aiohttp.client_proto import ResponseHandler
        from vf.httpfront import HttpFront
        Pipe = _mem_transport_classes()
        peer = self

        class MemConnector(aiohttp.BaseConnector):
            async def _create_connection(self, req, traces, timeout):
                if peer.srv.dropped:
                    raise aiohttp.ClientConnectorError(
                        req.connection_key, OSError(111, 'Connection refused'))
                loop = peer.loop
                peer.connections += 1
                cproto = ResponseHandler(loop)
                sproto = HttpFront(peer.srv, loop,
                                   'https' if req.is_ssl() else 'http')
                a, b = Pipe(loop, peer), Pipe(loop, peer)
                a.peer, b.peer = b, a
                a.protocol, b.protocol = cproto, sproto
                cproto.connection_made(a)
                sproto.connection_made(b)
                return cproto
        return aiohttp.ClientSession(connector=MemConnector())


class WorldR(WorldA):
    """Like WorldA, but the real AsyncClient talks through a REAL
    aiohttp.ClientSession (in-memory pipes to the scripted server's HTTP
    front-end) instead of the fake session."""
    kind = 'R'

    def __init__(self, script=None, **client_kwargs):
        from vf import vloop
        for k in ('policy', 'seed', 'yield_prob', 'backend'):
            client_kwargs.pop(k, None)
        self.loop = vloop.VLoop()
        self.srv = ScriptedA(self.loop, script)
        self.peer = ScriptPeer(self.loop, self.srv)
        self.cli = CliA(self.loop, self.peer,
                        session_factory=self.peer.make_session,
                        **client_kwargs)

    def teardown(self):
        try:
            self.loop.create_task(self.cli.session.close())
            self.loop.quiesce()
        except BaseException:
            pass
        return super().teardown()


def make_world(kind, **kw):
    if kind == 'R':
        return WorldR(**kw)
    return WorldT(**kw) if kind == 'T' else WorldA(**kw)


# --------------------------------------------------------------------------
# Real servers as peers (C10): the fake transports call into simT / simA
# --------------------------------------------------------------------------
def _split(url):
    u = urllib.parse.urlsplit(url)
    return u, u.query


class PeerT:
    """Threaded client <-> threaded server under one scheduler."""
    lat = None      # callable -> one-way network latency (virtual seconds)
    drop_probe_answers = 0      # that many PONG 'probe' frames get lost

    def __init__(self, sim):
        self.sim = sim
        self.sched = sim.sched

    def now(self):
        return self.sched.now

    def _hop(self):
        d = self.lat() if self.lat is not None else 0
        if d:
            vsched.vsleep(self.sched, d)

    def http(self, method, url, headers, body, timeout):
        u, q = _split(url)
        if isinstance(body, str):
            body = body.encode('utf-8')
        self._hop()
        ev = vsched.VEvent(self.sched)
        hd = {'Host': u.netloc}
        hd.update(headers or {})
        t = self.sim.request(method, q, hd, body=body, path=u.path)
        if t.done:
            ev.set()
        else:
            t.on_done = lambda tk: ev.set()
        ev.wait(timeout)
        if not t.done:
            t.abandoned = True
            raise PeerRefused('read timed out')
        if t.exc is not None:
            raise PeerRefused('server error %r' % (t.exc,))
        self._hop()
        return Resp(t.code, t.body or b'')

    def ws_connect(self, url, headers, timeout):
        u, q = _split(url)
        self._hop()
        ws, t = self.sim.ws_request(q, dict(headers or {}, Host=u.netloc))
        ev = vsched.VEvent(self.sched)
        inbox = vsched.VQueue(self.sched)
        ws.on_accept = lambda c: ev.set()
        def on_frame(c, fr):
            if fr == '3probe' and self.drop_probe_answers > 0:
                self.drop_probe_answers -= 1    # lost on the way
                return
            inbox.put(fr)
        ws.on_frame = on_frame
        ws.on_close = lambda c: inbox.put(CLOSED)
        if t.done or ws.accepted:
            ev.set()
        else:
            t.on_done = lambda tk: ev.set()
        ev.wait(timeout)
        if not ws.accepted:
            raise PeerRefused('websocket handshake refused (%r)' % (
                t.status,))
        conn = PeerTConn(ws, inbox, self)
        self.__dict__.setdefault('ws_conns', []).append(conn)
        return conn


class PeerTConn:
    def __init__(self, ws, inbox, peer=None):
        self.ws = ws
        self.inbox = inbox
        self.peer = peer

    def send(self, frame):
        if self.ws.server_closed:
            raise WsClosed()
        d = self.peer.lat() if (self.peer is not None and
                                self.peer.lat is not None) else 0
        if not d and not getattr(self, 'pump', None):
            self.ws.send(frame)
            return
        # frames in flight: delivered after the latency, in order, without
        # blocking the sender (a WebSocket write returns at once)
        sched = self.peer.sched
        if not getattr(self, 'pump', None):
            self.flight = vsched.VQueue(sched)
            self.last_due = 0.0

            def pump():
                while True:
                    due, fr = self.flight.get()
                    self.flight.task_done()
                    if due > sched.now:
                        vsched.vsleep(sched, due - sched.now)
                    if not self.ws.server_closed:
                        self.ws.send(fr)
            self.pump = sched.spawn(pump, name='net-frames')
        self.last_due = max(self.last_due, sched.now + d)
        self.flight.put((self.last_due, frame))

    def recv(self, timeout):
        try:
            item = self.inbox.get(timeout=timeout)
        except vsched.VQueue.Empty:
            raise WsTimeout()
        if item is CLOSED:
            self.inbox.put(CLOSED)
            raise WsClosed()
        return item

    def close(self):
        self.ws.close()
        self.inbox.put(CLOSED)


class PeerA:
    """Asyncio client <-> asyncio server (real ASGI adapter) on one loop."""
    lat = None
    drop_probe_answers = 0

    def __init__(self, sim):
        self.sim = sim
        self.loop = sim.loop

    def now(self):
        return self.loop._vnow

    async def _hop(self):
        import asyncio
        d = self.lat() if self.lat is not None else 0
        if d:
            await asyncio.sleep(d)

    async def ahttp(self, method, url, headers, body, timeout):
        import asyncio
        u, q = _split(url)
        if isinstance(body, str):
            body = body.encode('utf-8')
        await self._hop()
        ev = asyncio.Event()
        hd = {'Host': u.netloc}
        hd.update(headers or {})
        t = self.sim.request(method, q, hd, body=body, path=u.path)
        t.on_done = lambda tk: ev.set()
        if t.done:
            ev.set()
        try:
            await ev.wait()
        except asyncio.CancelledError:
            t.abandoned = True
            if getattr(t, 'gone', None) is not None:
                t.gone.set()        # the ASGI server reports http.disconnect
            if getattr(t, 'conn', None) is not None:
                t.conn.tr.drop()    # (aiohttp engine) the connection goes
            raise
        if t.exc is not None:
            raise PeerRefused('server error %r' % (t.exc,))
        await self._hop()
        return Resp(t.code, t.body or b'')

    async def aws_connect(self, url, headers, timeout):
        import asyncio
        u, q = _split(url)
        await self._hop()
        ws, t = self.sim.ws_request(q, dict(headers or {}, Host=u.netloc))
        ev = asyncio.Event()
        inbox = asyncio.Queue()
        ws.on_accept = lambda c: ev.set()

        def on_frame(c, fr):
            if fr == '3probe' and self.drop_probe_answers > 0:
                self.drop_probe_answers -= 1    # lost on the way
                return
            inbox.put_nowait(fr)
        ws.on_frame = on_frame
        ws.on_close = lambda c: inbox.put_nowait(CLOSED)
        t.on_done = lambda tk: ev.set()
        if t.done or ws.accepted:
            ev.set()
        await ev.wait()
        if not ws.accepted:
            raise PeerRefused('websocket handshake refused')
        conn = PeerAConn(ws, inbox, self)
        self.__dict__.setdefault('ws_conns', []).append(conn)
        return conn


class PeerAConn:
    def __init__(self, ws, inbox, peer=None):
        self.ws = ws
        self.inbox = inbox
        self.peer = peer

    async def asend(self, frame):
        import asyncio
        if self.ws.server_closed:
            raise WsClosed()
        d = self.peer.lat() if (self.peer is not None and
                                self.peer.lat is not None) else 0
        if not d and not getattr(self, 'pump', None):
            self.ws.send(frame)
            return
        loop = self.peer.loop
        if not getattr(self, 'pump', None):
            self.flight = asyncio.Queue()
            self.last_due = 0.0

            async def pump():
                while True:
                    due, fr = await self.flight.get()
                    if due > loop._vnow:
                        await asyncio.sleep(due - loop._vnow)
                    if not self.ws.server_closed:
                        self.ws.send(fr)
            self.pump = loop.create_task(pump())
        self.last_due = max(self.last_due, loop._vnow + d)
        self.flight.put_nowait((self.last_due, frame))

    async def arecv(self):
        item = await self.inbox.get()
        if item is CLOSED:
            self.inbox.put_nowait(CLOSED)
            raise WsClosed()
        return item

    async def aclose(self):
        self.ws.close()
        self.inbox.put_nowait(CLOSED)


class PairTT:
    kind = 'TT'

    def __init__(self, server_kwargs=None, policy='fifo', seed=0,
                 yield_prob=0.0, **client_kwargs):
        from vf.simt import SimT
        self.sim = SimT(server_kwargs, policy=policy, seed=seed,
                        yield_prob=yield_prob)
        self.sched = self.sim.sched
        self.peer = PeerT(self.sim)
        self.cli = CliT(self.sched, self.peer, **client_kwargs)

    now = property(lambda self: self.sched.now)

    def quiesce(self):
        self.sched.quiesce()

    def advance(self, dt):
        self.sched.advance(dt)

    def run_until(self, pred, horizon):
        return self.sched.run_until(pred, horizon)

    def teardown(self):
        z = self.sim.teardown()
        self.cli.restore()
        return z


class PairAA:
    kind = 'AA'

    def __init__(self, server_kwargs=None, **client_kwargs):
        from vf.sima import SimA
        for k in ('policy', 'seed', 'yield_prob'):
            client_kwargs.pop(k, None)
        self.sim = SimA(server_kwargs)
        self.loop = self.sim.loop
        self.peer = PeerA(self.sim)
        self.cli = CliA(self.loop, self.peer, **client_kwargs)

    now = property(lambda self: self.loop._vnow)

    def quiesce(self):
        self.loop.quiesce()

    def advance(self, dt):
        self.loop.advance(dt)

    def run_until(self, pred, horizon):
        return self.loop.run_until(pred, horizon)

    def teardown(self):
        z = self.sim.teardown()
        self.cli.restore()
        return z


def _mem_transport_classes():
    import asyncio

    class Pipe(asyncio.Transport):
        """One end of an in-memory duplex connection between two asyncio
        protocols (aiohttp's client ResponseHandler and the aiohttp server's
        RequestHandler); bytes written at one end are delivered to the other
        end's protocol after the hop latency."""
        def __init__(self, loop, peerobj):
            super().__init__()
            self.loop = loop
            self.peerobj = peerobj
            self.peer = None
            self.protocol = None
            self.closing = False
            self.lost = False
            self.last_due = 0.0
            self.flight = []

        def get_extra_info(self, name, default=None):
            return {'peername': ('127.0.0.1', 5555),
                    'sockname': ('127.0.0.1', 80)}.get(name, default)

        def is_closing(self):
            return self.closing

        def _after(self, fn, *a):
            d = self.peerobj.lat() if self.peerobj.lat is not None else 0
            # in-order delivery: nothing overtakes what was written before
            # (one FIFO per direction; timers with equal deadlines are not
            # ordered by the loop)
            self.last_due = max(self.last_due, self.loop._vnow + d)
            self.flight.append((self.last_due, fn, a))
            if len(self.flight) == 1:
                self._arm()

        def _arm(self):
            due = self.flight[0][0]
            if due <= self.loop._vnow:
                self.loop.call_soon(self._pump)
            else:
                self.loop.call_at(due, self._pump)

        def _pump(self):
            while self.flight and self.flight[0][0] <= self.loop._vnow + 1e-12:
                due, fn, a = self.flight.pop(0)
                fn(*a)
            if self.flight:
                self._arm()

        def write(self, data):
            if self.closing or self.peer.lost:
                return
            self._after(self.peer._deliver, bytes(data))

        def writelines(self, parts):
            for p in parts:
                self.write(p)

        def _deliver(self, data):
            if not self.lost and self.protocol is not None:
                self.protocol.data_received(data)

        def close(self):
            if not self.closing:
                self.closing = True
                self.loop.call_soon(self._lose)
                self._after(self.peer._peer_closed)

        abort = close

        def _peer_closed(self):
            if not self.lost:
                self.closing = True
                self._lose()

        def _lose(self):
            if not self.lost:
                self.lost = True
                if self.protocol is not None:
                    self.protocol.connection_lost(None)

        def pause_reading(self):
            pass

        def resume_reading(self):
            pass

        def is_reading(self):
            return True

        def set_write_buffer_limits(self, high=None, low=None):
            pass

        def get_write_buffer_size(self):
            return 0

        def get_write_buffer_limits(self):
            return (0, 0)

        def can_write_eof(self):
            return False

        def set_protocol(self, p):
            self.protocol = p

        def get_protocol(self):
            return self.protocol
    return Pipe


def _web_sim(which):
    if which == 'N':
        from vf.simn import SimN
        return SimN
    from vf.simh import SimH
    return SimH


class MemPeer:
    """Network between a REAL aiohttp.ClientSession and the real aiohttp
    web server of engine simH: every connection the client's connector opens
    is an in-memory duplex pipe."""
    lat = None

    def __init__(self, sim):
        self.sim = sim
        self.loop = sim.loop
        self.connections = 0

    def make_session(self):
        import aiohttp
        from aiohttp.client_proto import ResponseHandler
        Pipe = _mem_transport_classes()
        peer = self

        class MemConnector(aiohttp.BaseConnector):
            async def _create_connection(self, req, traces, timeout):
                loop = peer.loop
                peer.connections += 1
                cproto = ResponseHandler(loop)
                sproto = peer.sim.http_server()
                a, b = Pipe(loop, peer), Pipe(loop, peer)
                a.peer, b.peer = b, a
                a.protocol, b.protocol = cproto, sproto
                cproto.connection_made(a)
                sproto.connection_made(b)
                return cproto
        return aiohttp.ClientSession(connector=MemConnector())


class PairRH(PairAA):
    """real AsyncClient using a REAL aiohttp.ClientSession <-> real aiohttp
    web server + adapter + AsyncServer: nothing of either side is faked, the
    connections are in-memory pipes on the virtual loop."""
    kind = 'RH'
    SIM = 'H'

    def __init__(self, server_kwargs=None, **client_kwargs):
        for k in ('policy', 'seed', 'yield_prob'):
            client_kwargs.pop(k, None)
        self.sim = _web_sim(self.SIM)(server_kwargs)
        self.loop = self.sim.loop
        self.peer = MemPeer(self.sim)
        self.cli = CliA(self.loop, self.peer,
                        session_factory=self.peer.make_session,
                        **client_kwargs)

    def teardown(self):
        try:
            self.loop.create_task(self.cli.session.close())
            self.loop.quiesce()
        except BaseException:
            pass
        return super().teardown()


class PairAH(PairAA):
    """real AsyncClient <-> real AsyncServer behind the real aiohttp
    adapter and web server (engine simH) on one virtual loop."""
    kind = 'AH'
    SIM = 'H'

    def __init__(self, server_kwargs=None, **client_kwargs):
        for k in ('policy', 'seed', 'yield_prob'):
            client_kwargs.pop(k, None)
        self.sim = _web_sim(self.SIM)(server_kwargs)
        self.loop = self.sim.loop
        self.peer = PeerA(self.sim)
        self.cli = CliA(self.loop, self.peer, **client_kwargs)


# --------------------------------------------------------------------------
# bridge: an asyncio loop running as ONE task of the thread scheduler, so a
# threaded party and an asyncio party share one virtual clock and scheduler
# --------------------------------------------------------------------------
def make_bridge_loop(sched):
    from vf import vloop

    class BridgeLoop(vloop.VLoop):
        def __init__(self):
            self._sched = sched
            super().__init__()
            self.wake = vsched.VEvent(sched)
            self.stopping = False

        @property
        def _vnow(self):
            return self._sched.now

        @_vnow.setter
        def _vnow(self, v):
            pass

        def call_soon(self, callback, *args, context=None):
            h = super().call_soon(callback, *args, context=context)
            self.wake.flag = True
            ws, self.wake.waiters = self.wake.waiters, []
            for w_ in ws:
                self._sched._wake(w_, 'signal')
            return h

        def call_at(self, when, callback, *args, context=None):
            h = super().call_at(when, callback, *args, context=context)
            self.wake.flag = True
            ws, self.wake.waiters = self.wake.waiters, []
            for w_ in ws:
                self._sched._wake(w_, 'signal')
            return h

        def run_as_task(self):
            while not self.stopping:
                self.quiesce()
                self.wake.flag = False
                if self.busy():
                    continue
                nt = self.next_timer()
                self.wake.wait(None if nt is None
                               else max(0.0, nt - self._sched.now))
    loop = BridgeLoop()
    loop.task = sched.spawn(loop.run_as_task, name='asyncio-loop')
    return loop


class PeerTA(PeerT):
    """Threaded client -> asyncio server living in a bridge loop."""
    def __init__(self, sim, sched):
        self.sim = sim
        self.sched = sched


class PeerAT(PeerA):
    """Asyncio client (in a bridge loop) -> threaded server."""
    def __init__(self, sim, loop):
        self.sim = sim
        self.loop = loop


class PairTA:
    """real Client (threads) <-> real AsyncServer (bridge loop)."""
    kind = 'TA'

    def __init__(self, server_kwargs=None, policy='fifo', seed=0,
                 yield_prob=0.0, **client_kwargs):
        from vf.sima import SimA
        self.sched = vsched.Sched(policy, seed, None, 0.0)
        self.loop = make_bridge_loop(self.sched)
        self.sim = SimA(server_kwargs, loop=self.loop)
        self.peer = PeerTA(self.sim, self.sched)
        self.cli = CliT(self.sched, self.peer, **client_kwargs)

    now = property(lambda self: self.sched.now)

    def quiesce(self):
        self.sched.quiesce()

    def advance(self, dt):
        self.sched.advance(dt)

    def run_until(self, pred, horizon):
        return self.sched.run_until(pred, horizon)

    def teardown(self):
        self.loop.stopping = True
        z = self.sched.kill_all()
        try:
            self.sim.asock.time = self.sim._old_time
            for t in self.loop.pending_tasks():
                t.cancel()
        except Exception:
            pass
        self.cli.restore()
        return z


class PairTH(PairTA):
    """real Client (threads) <-> real AsyncServer behind the real aiohttp
    adapter and web server (bridge loop)."""
    kind = 'TH'
    SIM = 'H'

    def __init__(self, server_kwargs=None, policy='fifo', seed=0,
                 yield_prob=0.0, **client_kwargs):
        self.sched = vsched.Sched(policy, seed, None, 0.0)
        self.loop = make_bridge_loop(self.sched)
        self.sim = _web_sim(self.SIM)(server_kwargs, loop=self.loop)
        self.peer = PeerTA(self.sim, self.sched)
        self.cli = CliT(self.sched, self.peer, **client_kwargs)


class PairAT:
    """real AsyncClient (bridge loop) <-> real Server (threads)."""
    kind = 'AT'

    def __init__(self, server_kwargs=None, policy='fifo', seed=0,
                 yield_prob=0.0, **client_kwargs):
        from vf.simt import SimT
        self.sched = vsched.Sched(policy, seed, None, 0.0)
        self.sim = SimT(server_kwargs, sched=self.sched)
        self.loop = make_bridge_loop(self.sched)
        self.peer = PeerAT(self.sim, self.loop)
        self.cli = CliA(self.loop, self.peer, **client_kwargs)

    now = property(lambda self: self.sched.now)

    def quiesce(self):
        self.sched.quiesce()

    def advance(self, dt):
        self.sched.advance(dt)

    def run_until(self, pred, horizon):
        return self.sched.run_until(pred, horizon)

    def teardown(self):
        self.loop.stopping = True
        z = self.sim.teardown()
        try:
            for t in self.loop.pending_tasks():
                t.cancel()
        except Exception:
            pass
        self.cli.restore()
        return z


class PairAN(PairAH):
    """... behind the real tornado adapter and web server (engine simN)"""
    kind = 'AN'
    SIM = 'N'


class PairTN(PairTH):
    kind = 'TN'
    SIM = 'N'


class PairRN(PairRH):
    """real aiohttp.ClientSession <-> real tornado server"""
    kind = 'RN'
    SIM = 'N'


PAIRS = {'TT': PairTT, 'AA': PairAA, 'TA': PairTA, 'AT': PairAT,
         'AH': PairAH, 'TH': PairTH, 'RH': PairRH,
         'AN': PairAN, 'TN': PairTN, 'RN': PairRN}

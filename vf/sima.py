"""simA: the real engineio.AsyncServer behind the real ASGI adapter
(engineio.async_drivers.asgi through engineio.ASGIApp) on the virtual asyncio
loop, driven by ASGI scopes/events with an ASGI protocol automaton."""
import asyncio

from vf import vloop
from vf.simbase import SimBase, Ticket, QUIET, PATH


class ClientGone(OSError):
    """What an ASGI server raises from send() once the peer is gone."""


class WsConnA:
    """Client end of a simulated WebSocket (ASGI side)."""
    def __init__(self, sim):
        self.sim = sim
        self.q = asyncio.Queue()
        self.frames = []
        self.sent = []
        self.accepted = False
        self.server_closed = False
        self.client_closed = False
        self.vanished = False
        self.send_fails = False
        self.polite = True
        self.first_read_clk = None
        self.first_read_t = None
        self.reads = 0
        self.ticket = None
        self.handler_done = False
        self.proto = []
        self.on_frame = None
        self.on_accept = None
        self.on_close = None
        self.connect_delivered = False
        self.disconnect_delivered = False
        self.close_reason = None
        self.q.put_nowait({'type': 'websocket.connect'})

    def send(self, frame):
        self.sent.append({'clk': self.sim.tick(), 't': self.sim.now,
                          'frame': frame})
        if isinstance(frame, (bytes, bytearray)):
            # (some servers / drivers hand out a mutable buffer; a scenario
            # may ask for the frame to be passed on as it was given)
            raw = getattr(self.sim, 'raw_bytearray', False)
            ev = {'type': 'websocket.receive',
                  'bytes': frame if raw else bytes(frame), 'text': None}
        else:
            ev = {'type': 'websocket.receive', 'text': frame, 'bytes': None}
        self.q.put_nowait(ev)

    def close(self):
        if not self.client_closed:
            self.client_closed = True
            self.q.put_nowait({'type': 'websocket.disconnect', 'code': 1005})

    def vanish(self):
        self.vanished = True

    def stall(self, dur):
        """(see WsConnT.stall: the server's send() awaits that long)"""
        self.stall_until = self.sim.now + dur

    def texts(self):
        return [f['frame'] for f in self.frames]

    # ASGI callables for this connection
    async def receive(self):
        if self.disconnect_delivered or self.server_closed:
            # uvicorn keeps answering websocket.disconnect
            self.disconnect_delivered = True
            return {'type': 'websocket.disconnect', 'code': 1006}
        if self.connect_delivered and self.first_read_clk is None:
            self.first_read_clk = self.sim.tick()
            self.first_read_t = self.sim.now
        ev = await self.q.get()
        if ev['type'] == 'websocket.connect':
            self.connect_delivered = True
        elif ev['type'] == 'websocket.disconnect':
            self.disconnect_delivered = True
        else:
            self.reads += 0
        return ev

    async def asgi_send(self, ev):
        tp = ev.get('type')
        if tp == 'websocket.accept':
            if self.accepted or self.server_closed:
                self.proto.append('accept in state accepted=%s closed=%s' % (
                    self.accepted, self.server_closed))
            if self.disconnect_delivered or getattr(self, 'accept_fails',
                                                    False):
                self.server_closed = True
                raise ClientGone('peer gone')
            if getattr(self, 'accept_delay', 0):
                await asyncio.sleep(self.accept_delay)
            self.accepted = True
            self.accept_clk = self.sim.tick()
            if self.on_accept is not None:
                self.on_accept(self)
        elif tp == 'websocket.send':
            if not self.accepted:
                self.proto.append('websocket.send before accept')
            if self.server_closed:
                self.proto.append('websocket.send after websocket.close')
                raise RuntimeError("Unexpected ASGI message 'websocket.send'")
            if self.disconnect_delivered or self.client_closed or \
                    self.send_fails:
                raise ClientGone('peer gone')
            rem = getattr(self, 'stall_until', 0) - self.sim.now
            if rem > 0:
                await asyncio.sleep(rem)    # flow control: send() awaits
            b, t = ev.get('bytes'), ev.get('text')
            if (b is None) == (t is None):
                self.proto.append('websocket.send with bytes=%r text=%r' % (
                    b, t))
            if b is not None and not isinstance(b, (bytes, bytearray)):
                self.proto.append('websocket.send bytes of type %s' %
                                  type(b).__name__)
            if t is not None and not isinstance(t, str):
                self.proto.append('websocket.send text of type %s' %
                                  type(t).__name__)
            self.frames.append({'clk': self.sim.tick(), 't': self.sim.now,
                                'frame': bytes(b) if b is not None else t,
                                'lost': self.vanished})
            if self.on_frame is not None and not self.vanished:
                self.on_frame(self, self.frames[-1]['frame'])
        elif tp == 'websocket.close':
            if self.server_closed:
                self.proto.append('websocket.close twice')
                raise RuntimeError("Unexpected ASGI message 'websocket.close'")
            if self.disconnect_delivered or self.send_fails:
                # (a connection whose writes fail fails this one too)
                raise ClientGone('peer gone')
            self.server_closed = True
            self.close_reason = ev.get('reason')
            self.close_clk = self.sim.tick()
            if self.on_close is not None:
                self.on_close(self)
            # after the application closed the socket the ASGI server
            # answers every receive() with websocket.disconnect
            self.q.put_nowait({'type': 'websocket.disconnect',
                               'code': 1000})
        else:
            self.proto.append('event %r on a websocket scope' % (tp,))


class SimA(SimBase):
    kind = 'A'

    def __init__(self, server_kwargs=None, handler_cfg=None,
                 websocket_available=True, host='srv.test', scheme='http',
                 async_handlers_coro=True, app_kwargs=None, body_chunks=1,
                 loop=None, **ignored):
        import engineio
        import engineio.async_socket as asock
        self.loop = loop or vloop.VLoop()
        self._init_base(handler_cfg)
        self.host, self.scheme = host, scheme
        self.body_chunks = body_chunks
        self.client_gone_early = False
        kw = dict(server_kwargs or {})
        kw.setdefault('logger', QUIET)
        self.server = engineio.AsyncServer(async_mode=self.ASYNC_MODE, **kw)
        if not websocket_available:
            self.server._async = dict(self.server._async)
            self.server._async['websocket'] = None
        self._old_time = asock.time
        asock.time = vloop.VTimeModule(self.loop)
        self.asock = asock
        if async_handlers_coro:
            async def hc(sid, environ):
                if self.cfg.get('connect_send'):
                    await self.server.send(sid, self.cfg['connect_send'])
                dt = self.suspend.get('connect')
                if dt:
                    self.events.append({'clk': self.tick(), 't': self.now,
                                        'ev': 'connect-entered', 'sid': sid})
                    await asyncio.sleep(dt)
                return self._h_connect(sid, environ)

            async def pause(ev):
                dt = self.suspend.get(ev)
                if dt:
                    await asyncio.sleep(dt)

            async def hm(sid, data):
                i = self._log_message(sid, data)
                await pause('message')
                self._maybe_boom('message', i)

            async def hd(sid, reason):
                i = self._log_disconnect(sid, reason)
                await pause('disconnect')
                self._maybe_boom('disconnect', i)

            async def hd_legacy(sid):
                await hd(sid, '?legacy')
            self.server.on('connect', hc)
            self.server.on('message', hm)
            self.server.on('disconnect', hd_legacy if self.legacy_disconnect
                           else hd)
        else:
            def hd_legacy_sync(sid):
                self._h_disconnect(sid, '?legacy')
            self.server.on('connect', self._h_connect)
            self.server.on('message', self._h_message)
            self.server.on('disconnect', hd_legacy_sync
                           if self.legacy_disconnect else self._h_disconnect)
        self.true_reason = {}
        real_trigger = self.server._trigger_event

        def spy_trigger(event, *args, **kwargs):
            # (returns the coroutine of the real method)
            if event == 'disconnect' and len(args) == 2:
                self.true_reason.setdefault(args[0], args[1])
            return real_trigger(event, *args, **kwargs)
        self.server._trigger_event = spy_trigger
        self._make_app(app_kwargs)

    ASYNC_MODE = 'asgi'

    def _make_app(self, app_kwargs):
        import engineio
        self.app = engineio.ASGIApp(self.server, **(app_kwargs or {}))

    @property
    def now(self):
        return self.loop._vnow

    def new_ws(self):
        return WsConnA(self)

    # ------------------------------------------------------------ requests
    def scope(self, method, q, headers, ws, path=PATH, body=None,
              declared=None):
        hs = []
        if self.host is not None:
            hs.append((b'host', self.host.encode()))
        if body is not None or declared is not None:
            hs.append((b'content-length', str(
                len(body or b'') if declared is None else declared).encode()))
            hs.append((b'content-type', b'text/plain;charset=UTF-8'))
        for k, v in (headers or {}).items():
            if v is None:
                hs = [h for h in hs if h[0] != k.lower().encode()]
            elif isinstance(v, (list, tuple)):
                for one in v:       # a repeated header line
                    hs.append((k.lower().encode('latin-1'),
                               one.encode('latin-1', 'replace')))
            else:
                hs.append((k.lower().encode('latin-1'),
                           v.encode('latin-1', 'replace')))
        sc = {'type': 'websocket' if ws is not None else 'http',
              'asgi': {'version': '3.0'}, 'http_version': '1.1',
              'path': path, 'raw_path': path.encode(),
              'query_string': self.qs(q).encode('utf-8'), 'headers': hs,
              'scheme': (self.scheme if ws is None else
                         {'http': 'ws', 'https': 'wss'}.get(self.scheme,
                                                            self.scheme)),
              'server': ('srv.test', 80),
              'client': ('127.0.0.1', 5555)}
        if ws is None:
            sc['method'] = method
        return sc

    def request(self, method, q, headers=None, body=None, declared=None,
                ws=None, path=PATH, env_override=None, scope_override=None):
        t = Ticket(self, 'request', {'method': method, 'q': q,
                                     'ws': ws is not None})
        self.tickets.append(t)
        sc = self.scope(method, q, headers, ws, path, body, declared)
        if scope_override:
            sc.update(scope_override)
        t.scope = sc
        t.client_gone_early = self.client_gone_early
        t.task = self.loop.create_task(self._serve(t, sc, body, ws))
        return t

    async def _serve(self, t, sc, body, ws):
        state = {'start': 0, 'body_done': False, 'sent_req': False}
        chunks = []
        t.c_enter = self.tick()
        gone = asyncio.Event()
        t.gone = gone

        if ws is not None:
            receive, send = ws.receive, ws.asgi_send
        else:
            data = body or b''
            n = max(1, self.body_chunks)
            step = max(1, -(-len(data) // n)) if data else 1
            parts = [data[i:i + step] for i in range(0, len(data), step)] \
                or [b'']
            if self.body_chunks == 1 and data:
                # nobody asked for a particular delivery: request bodies
                # arrive in rotating shapes, all legal ASGI - one event, two
                # events, an EMPTY event (more_body true) between two halves,
                # an empty event first
                self._body_no = getattr(self, '_body_no', -1) + 1
                h = len(data) // 2
                parts = [[data], [data[:h], data[h:]],
                         [data[:h], b'', data[h:]],
                         [b'', data]][self._body_no % 4]
            it = iter(list(enumerate(parts)))

            async def receive():
                if getattr(t, 'client_gone_early', False):
                    # the client went away before its request body was read
                    return {'type': 'http.disconnect'}
                nxt = next(it, None)
                if nxt is None:
                    await gone.wait()
                    return {'type': 'http.disconnect'}
                i, part = nxt
                t.reads.append(len(part))
                t.read_bytes += len(part)
                return {'type': 'http.request', 'body': part,
                        'more_body': i < len(parts) - 1}

            async def send(ev):
                tp = ev.get('type')
                if tp == 'http.response.start':
                    state['start'] += 1
                    if state['start'] > 1:
                        t.proto.append('second http.response.start')
                    if state['body_done']:
                        t.proto.append('response.start after final body')
                    st, hs = ev.get('status'), ev.get('headers', [])
                    if not isinstance(st, int):
                        t.proto.append('status of type %s' % type(st).__name__)
                    ok = isinstance(hs, (list, tuple)) and all(
                        isinstance(h, (list, tuple)) and len(h) == 2 and
                        isinstance(h[0], bytes) and isinstance(h[1], bytes)
                        for h in hs)
                    if not ok:
                        t.proto.append('headers not byte pairs: %r' % (hs,))
                    if state['start'] == 1:
                        t.status = st
                        t.headers = [(h[0].decode('latin-1'),
                                      h[1].decode('latin-1')) for h in hs] \
                            if ok else []
                elif tp == 'http.response.body':
                    if state['start'] == 0:
                        t.proto.append('body before response.start')
                    if state['body_done']:
                        t.proto.append('body after the final body event')
                    b = ev.get('body', b'')
                    if not isinstance(b, (bytes, bytearray)):
                        t.proto.append('body of type %s' % type(b).__name__)
                    else:
                        chunks.append(bytes(b))
                    if not ev.get('more_body'):
                        state['body_done'] = True
                else:
                    t.proto.append('event %r on an http scope' % (tp,))
        try:
            await self.app(sc, receive, send)
            if ws is None:
                t.body = b''.join(chunks)
                if state['start'] == 0 and t.client_gone_early:
                    pass    # nobody is left to answer
                elif state['start'] != 1:
                    t.proto.append('http.response.start sent %d times' %
                                   state['start'])
                elif not state['body_done']:
                    t.proto.append('response body never completed')
        except asyncio.CancelledError:
            t.cancelled = True
            raise
        except BaseException as e:
            t.exc = e
            import traceback
            t.exc_tb = traceback.format_exc()[-1500:]
        finally:
            if ws is not None:
                ws.handler_done = True
                ws.handler_end_clk = self.tick()
                if not ws.accepted and ws.server_closed:
                    t.status = 403      # rejected handshake
            t.finish()

    # ------------------------------------------------------------ app calls
    def app_call(self, name, *args):
        t = Ticket(self, 'app', {'call': name, 'args': args})
        self.tickets.append(t)

        async def run():
            try:
                t.result = await getattr(self.server, name)(*args)
            except asyncio.CancelledError:
                raise
            except BaseException as e:
                t.exc = e
                import traceback
                t.exc_tb = traceback.format_exc()[-1500:]
            finally:
                t.finish()
        t.task = self.loop.create_task(run())
        return t

    def app_seq(self, calls):
        t = Ticket(self, 'app', {'call': 'seq', 'n': len(calls)})
        self.tickets.append(t)

        async def run():
            try:
                for name, args in calls:
                    await getattr(self.server, name)(*args)
            except asyncio.CancelledError:
                raise
            except BaseException as e:
                t.exc = e
            finally:
                t.finish()
        t.task = self.loop.create_task(run())
        return t

    def _sync(self, coro):
        task = self.loop.create_task(coro)
        # accessors never block: a few iterations are enough
        for _ in range(50):
            if task.done():
                break
            self.loop.step(1)
        if not task.done():
            task.cancel()
            raise RuntimeError('accessor did not complete')
        return task.result()

    def session_get(self, sid):
        return self._sync(self.server.get_session(sid))

    def session_save(self, sid, val):
        return self._sync(self.server.save_session(sid, val))

    def session_cm(self, sid, key, val):
        async def f():
            async with self.server.session(sid) as s:
                s[key] = val
        return self._sync(f())

    def session_block(self, sid, inside):
        """(see SimT.session_block; inside() is awaited if it returns an
        awaitable)"""
        t = Ticket(self, 'app', {'call': 'session-block'})
        self.tickets.append(t)

        async def run():
            try:
                try:
                    async with self.server.session(sid) as s:
                        s['written-in-block'] = 1
                        r = inside()
                        if asyncio.iscoroutine(r):
                            await r
                    t.result = 'left'
                except asyncio.CancelledError:
                    raise
                except BaseException as e:
                    t.result = type(e).__name__
            finally:
                t.finish()
        t.task = self.loop.create_task(run())
        return t

    def lifespan_cycle(self):
        """The ASGI server runs one lifespan scope to its end on the
        application object (startup, shutdown) and goes on serving with the
        same object - what development reloaders and in-process test
        clients do. Returns the lifespan events the application sent."""
        inbox = [{'type': 'lifespan.startup'}, {'type': 'lifespan.shutdown'}]
        sent = []

        async def receive():
            if inbox:
                return inbox.pop(0)
            await asyncio.sleep(3600)

        async def send(ev):
            sent.append(ev['type'])
        task = self.loop.create_task(self.app({'type': 'lifespan'}, receive,
                                              send))
        self.loop.quiesce()
        if not task.done():
            task.cancel()
            self.loop.quiesce()
            sent.append('<lifespan scope did not end>')
        elif task.exception() is not None:
            sent.append('<raised %r>' % (task.exception(),))
        return sent

    # --------------------------------------------------------------- running
    def quiesce(self):
        self.loop.quiesce()

    def advance(self, dt):
        self.loop.advance(dt)

    def run_until(self, pred, horizon):
        return self.loop.run_until(pred, horizon)

    def step(self, n=1):
        self.loop.step(n)

    def after(self, dt, fn):
        if dt <= 0:
            return self.loop.call_soon(fn)
        return self.loop.call_later(dt, fn)

    def transport_of(self, sid):
        try:
            return self.server.transport(sid)
        except KeyError:
            return None

    def snapshot(self):
        out = {}
        for sid, s in list(self.server.sockets.items()):
            out[sid] = {
                'closed': s.closed, 'closing': s.closing,
                'upgraded': s.upgraded, 'upgrading': s.upgrading,
                'connected': s.connected,
                'queue': [None if p is None else (p.packet_type, repr(p.data))
                          for p in list(s.queue._queue)],
                'unfinished': s.queue._unfinished_tasks,
                'last_ping': s.last_ping, 'session': repr(s.session),
            }
        return out

    def live_sids(self):
        return sorted(sid for sid, s in self.server.sockets.items()
                      if not s.closed)

    def table_sids(self):
        return sorted(self.server.sockets)

    def stuck_tickets(self):
        return [t for t in self.tickets if not t.done]

    def hung_tasks(self):
        out = []
        for t in self.stuck_tickets():
            if t.task is not None and not t.task.done():
                st = []
                try:
                    for f in t.task.get_stack(limit=12):
                        fn = f.f_code.co_filename
                        short = fn[fn.rfind('/engineio/') + 1:] \
                            if '/engineio/' in fn else fn[fn.rfind('/') + 1:]
                        st.append('%s:%s' % (short, f.f_code.co_name))
                    # follow the await chain
                    c = t.task.get_coro()
                    st = []
                    while c is not None:
                        code = getattr(c, 'cr_code', None) or \
                            getattr(c, 'gi_code', None)
                        if code is None:
                            break
                        fn = code.co_filename
                        short = fn[fn.rfind('/engineio/') + 1:] \
                            if '/engineio/' in fn else fn[fn.rfind('/') + 1:]
                        st.append('%s:%s' % (short, code.co_name))
                        c = getattr(c, 'cr_await', None) or \
                            getattr(c, 'gi_yieldfrom', None)
                except Exception:
                    pass
                out.append((t.kind, st))
        return out

    def teardown(self):
        left = self.loop.shutdown()
        self.asock.time = self._old_time
        return left

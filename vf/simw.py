"""simW: simT with the REAL threaded WebSocket driver - the package's
engineio.async_drivers._websocket_wsgi.SimpleWebSocketWSGI on top of the real
simple_websocket.Server (wsproto): handshake, frame codec, close handshake,
its reader thread. Only two things are supplied from outside, both through
the interfaces simple_websocket offers for that: the thread / event classes
(those of the virtual scheduler, the documented hook for other concurrency
models) and the socket it finds in the WSGI environ ('werkzeug.socket'), which
is an in-memory one. The simulated client speaks RFC 6455 bytes.
"""
import struct

from vf import vsched
from vf.simh import enc_frame, WS_KEY
from vf.simt import SimT

EOF = object()


class FakeSock:
    """The server's end of the connection, as simple_websocket uses it."""
    def __init__(self, conn):
        self.conn = conn
        self.inbox = vsched.VQueue(conn.sim.sched)
        self.buf = b''
        self.closed = False
        self.eof = False

    def recv(self, n):
        if self.closed:
            raise OSError(9, 'Bad file descriptor')
        while not self.buf and not self.eof:
            item = self.inbox.get()
            if item is EOF:
                self.eof = True
            else:
                self.buf += item
            if self.closed:
                raise OSError(9, 'Bad file descriptor')
        out, self.buf = self.buf[:n], self.buf[n:]
        return out

    def send(self, data):
        c = self.conn
        if self.closed:
            raise OSError(9, 'Bad file descriptor')
        if c.peer_gone or c.send_fails:
            raise BrokenPipeError(32, 'Broken pipe')
        rem = getattr(c, 'stall_until', 0) - c.sim.now
        if rem > 0:
            vsched.vsleep(c.sim.sched, rem)     # a blocking send()
        c._from_server(bytes(data))
        return len(data)

    sendall = send

    def close(self):
        if not self.closed:
            self.closed = True
            self.inbox.put(EOF)     # wakes a blocked recv()
            self.conn._server_closed_socket()

    def shutdown(self, how):
        pass


class WsConnW:
    """Client end of a WebSocket connection to the real threaded driver."""
    def __init__(self, sim):
        self.sim = sim
        self.sock = FakeSock(self)
        self.frames = []
        self.sent = []
        self.accepted = False
        self.server_closed = False
        self.client_closed = False
        self.vanished = False
        self.send_fails = False
        self.peer_gone = False
        self.polite = True
        self.first_read_clk = None
        self.first_read_t = None
        self.reads = 0
        self.ticket = None
        self.handler_done = False
        self.proto = []
        self.on_frame = None
        self.on_accept = None
        self.on_close = None
        self.close_code = None
        self.close_reason = None
        self._buf = b''
        self._head_done = False
        self._frag = None
        self.refused_status = None

    # ---- what the scenarios do
    def send(self, frame):
        self.sent.append({'clk': self.sim.tick(), 't': self.sim.now,
                          'frame': frame})
        if self.client_closed:
            return
        if isinstance(frame, (bytes, bytearray)):
            self.sock.inbox.put(enc_frame(2, bytes(frame)))
        else:
            self.sock.inbox.put(enc_frame(1, frame.encode('utf-8')))

    def close(self):
        """The client closes: Close frame, then the connection goes away."""
        if not self.client_closed:
            self.client_closed = True
            if self.accepted:
                self.sock.inbox.put(enc_frame(8, struct.pack('!H', 1000)))
            self.sock.inbox.put(EOF)
            self.peer_gone = True

    def vanish(self):
        self.vanished = True

    def stall(self, dur):
        self.stall_until = self.sim.now + dur

    def texts(self):
        return [f['frame'] for f in self.frames]

    def accept_clk_safe(self):
        return getattr(self, 'accept_clk', 1e18)

    # ---- bytes written by the server
    def _server_closed_socket(self):
        if not self.server_closed:
            self.server_closed = True
            self.close_clk = self.sim.tick()
            if self.on_close is not None:
                self.on_close(self)

    def _from_server(self, data):
        self._buf += data
        if not self._head_done:
            i = self._buf.find(b'\r\n\r\n')
            if i < 0:
                return
            head, self._buf = self._buf[:i], self._buf[i + 4:]
            self._head_done = True
            lines = head.split(b'\r\n')
            parts = lines[0].split(b' ', 2)
            status = int(parts[1]) if len(parts) > 1 and \
                parts[1].isdigit() else -1
            hd = {}
            for ln in lines[1:]:
                k, _, v = ln.partition(b':')
                hd[k.strip().lower().decode('latin-1')] = \
                    v.strip().decode('latin-1')
            if status != 101:
                self.refused_status = status
                self.proto.append('handshake answered %r' % lines[0][:60])
                return
            if hd.get('upgrade', '').lower() != 'websocket' or \
                    'sec-websocket-accept' not in hd:
                self.proto.append('101 without a WebSocket handshake answer: '
                                  '%r' % (hd,))
            if 'sec-websocket-extensions' in hd:
                self.proto.append('extension %r accepted that was not '
                                  'offered' % hd['sec-websocket-extensions'])
            self.accepted = True
            self.accept_clk = self.sim.tick()
            if self.on_accept is not None:
                self.on_accept(self)
        while True:
            b = self._buf
            if len(b) < 2:
                return
            fin, op = b[0] & 0x80, b[0] & 0x0f
            if b[0] & 0x70:
                self.proto.append('reserved bits set in a frame header')
            if b[1] & 0x80:
                self.proto.append('server frame is masked')
            n = b[1] & 0x7f
            off = 2
            if n == 126:
                if len(b) < 4:
                    return
                n = struct.unpack('!H', b[2:4])[0]
                off = 4
            elif n == 127:
                if len(b) < 10:
                    return
                n = struct.unpack('!Q', b[2:10])[0]
                off = 10
            if b[1] & 0x80:
                off += 4
            if len(b) < off + n:
                return
            payload = b[off:off + n]
            self._buf = b[off + n:]
            self._frame(bool(fin), op, payload)

    def _frame(self, fin, op, payload):
        if self.close_code is not None and op != 8:
            self.proto.append('frame (opcode %d) after the Close frame' % op)
        if op == 0:
            if self._frag is None:
                self.proto.append('continuation frame without a start')
                return
            self._frag[1] += payload
            if not fin:
                return
            op, payload = self._frag[0], bytes(self._frag[1])
            self._frag = None
        elif op in (1, 2) and not fin:
            self._frag = [op, bytearray(payload)]
            return
        if op == 1:
            try:
                data = payload.decode('utf-8')
            except UnicodeDecodeError:
                self.proto.append('text frame that is not UTF-8')
                return
        elif op == 2:
            data = bytes(payload)
        elif op == 8:
            if self.close_code is not None:
                return
            self.close_code = struct.unpack('!H', payload[:2])[0] \
                if len(payload) >= 2 else 1005
            self.close_reason = payload[2:].decode('utf-8', 'replace')
            if not self.server_closed:
                self.server_closed = True
                self.close_clk = self.sim.tick()
                if self.on_close is not None:
                    self.on_close(self)
            if not self.client_closed and not self.vanished:
                # close handshake: echo, then the connection ends
                self.client_closed = True
                self.sock.inbox.put(enc_frame(8, payload[:2]))
                self.sock.inbox.put(EOF)
                self.peer_gone = True
            return
        elif op == 9:
            if not self.vanished and not self.client_closed:
                self.sock.inbox.put(enc_frame(10, payload))
            return
        elif op == 10:
            return
        else:
            self.proto.append('frame with opcode %d' % op)
            return
        self.frames.append({'clk': self.sim.tick(), 't': self.sim.now,
                            'frame': data, 'lost': self.vanished})
        if self.on_frame is not None and not self.vanished:
            self.on_frame(self, data)


def _driver_class(sim):
    from engineio.async_drivers._websocket_wsgi import SimpleWebSocketWSGI
    sched = sim.sched

    class RealWs(SimpleWebSocketWSGI):
        def __init__(self, handler, server):
            super().__init__(
                handler, server,
                thread_class=lambda **k: vsched.VThread(sched, **k),
                event_class=lambda: vsched.VEvent(sched))

        def __call__(self, environ, start_response):
            conn = environ['vf.ws']
            self.conn = conn
            sim.real_ws.append(self)
            environ['werkzeug.socket'] = conn.sock
            if getattr(conn, 'accept_fails', False):
                conn.send_fails = True      # gone before the handshake answer
            if getattr(conn, 'accept_delay', 0):
                vsched.vsleep(sim.sched, conn.accept_delay)
            try:
                return super().__call__(environ, start_response)
            finally:
                conn.handler_done = True
                conn.handler_end_clk = sim.tick()
                if not conn.accepted:
                    conn.server_closed = True

        def wait(self):
            c = self.conn
            if c.first_read_clk is None:
                c.first_read_clk = sim.tick()
                c.first_read_t = sim.now
            c.reads += 1
            return super().wait()
    return RealWs


class SimW(SimT):
    """The threaded server with the real simple_websocket driver."""
    adapter = 'simple_websocket'

    def __init__(self, *a, **kw):
        websocket_available = kw.get('websocket_available', True)
        kw.pop('ws_close_mode', None)       # (properties of the fake driver)
        kw.pop('ws_read_timeout', None)
        super().__init__(*a, **kw)
        self.real_ws = []
        if websocket_available:
            self.server._async['websocket'] = _driver_class(self)

    def lost_wakeup_conns(self):
        """Connections in the state simple_websocket's lost wake-up leaves
        behind (known finding K15): the library has marked the connection
        closed and its reader thread has ended, but the handler thread is
        still blocked in receive() - the event that should have woken it was
        set before 'connected' was cleared and consumed together with an
        earlier message."""
        out = []
        for rw in self.real_ws:
            ws = getattr(rw, 'ws', None)
            if ws is None or rw.conn.handler_done:
                continue
            th = getattr(ws, 'thread', None)
            if not ws.connected and not ws.input_buffer and \
                    th is not None and not th.is_alive() and \
                    not ws.event.is_set():
                out.append(rw.conn)
        return out

    def new_ws(self):
        return WsConnW(self)

    def environ(self, method, q, headers, body, declared, ticket, ws,
                path='/engine.io/'):
        env = super().environ(method, q, headers, body, declared, ticket, ws,
                              path)
        if ws is not None:
            env.setdefault('HTTP_SEC_WEBSOCKET_KEY', WS_KEY)
            env.setdefault('HTTP_SEC_WEBSOCKET_VERSION', '13')
        return env

"""Per-shard recorder of what the monitors saw."""
import collections

# engine simW instances of the case being run (set by vf.scen)
WSIMS = []


class Rec:
    MAXV = 40

    def __init__(self):
        self.evaluations = 0
        self.keys = set()
        self.violations = []
        self.nviolations = 0
        self.counters = collections.Counter()
        self.samples = []
        self.inconclusive = []
        self.extra = {}
        self._vkeys = collections.Counter()

    def count(self, name, n=1):
        self.counters[name] += n

    def key(self, k):
        self.keys.add(k if isinstance(k, str) else repr(k))

    def sample(self, s, limit=4):
        if len(self.samples) < limit:
            self.samples.append(s)

    def viol(self, key, msg, case=None):
        # known finding K15 is decided on the state of the real
        # simple_websocket driver (engine simW), whatever oracle noticed its
        # consequence: a connection the library has closed, whose reader
        # thread has ended, with the handler thread still asleep in receive()
        try:
            for sim in WSIMS:
                lw = sim.lost_wakeup_conns()
                if lw:
                    msg = '%s [real simple_websocket driver: %d handler ' \
                        'thread(s) asleep in receive() on connections the ' \
                        'library has closed; first reported as %s]' % (
                            msg, len(lw), key)
                    key = 'simple-websocket-lost-wakeup'
                    break
        except Exception:
            pass
        self.nviolations += 1
        self._vkeys[key] += 1
        if self._vkeys[key] <= 3 and len(self.violations) < self.MAXV:
            self.violations.append({'key': key, 'msg': msg, 'case': case})

    def result(self):
        return {'evaluations': self.evaluations, 'keys': sorted(self.keys),
                'violations': self.violations,
                'nviolations': self.nviolations,
                'counters': dict(self.counters), 'samples': self.samples,
                'inconclusive': self.inconclusive, 'extra': self.extra}

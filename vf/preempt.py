"""Line-level pre-emption for the thread backend of vsched.

sys.monitoring LINE events are enabled (set_local_events) only on the code
objects of named functions of the code under test; the callback, running in
the task's own OS thread, hands the baton back to the scheduler with a seeded
probability, so that another task can run *between two source lines* of e.g.
Socket.close(). This models async_mode='threading' (pre-emptive), of which the
cooperative schedules of the greenlet backend are a subset.
"""
import random
import sys

TOOL = 2
_state = {'sched': None, 'rng': None, 'p': 0.0, 'installed': False,
          'events': 0, 'preemptions': 0, 'codes': []}


def _line(code, line):
    s = _state['sched']
    if s is None:
        return
    t = s.current
    if t is None or t.killed or getattr(t, 'no_preempt', False):
        return
    _state['events'] += 1
    if _state['rng'].random() < _state['p']:
        _state['preemptions'] += 1
        if len(s.ready) > 0:
            s.yield_now()


def targets():
    import engineio.socket as so
    import engineio.server as sv
    import engineio.base_server as bs
    import engineio.client as cl
    fns = [so.Socket.close, so.Socket.poll, so.Socket.send,
           so.Socket.check_ping_timeout, so.Socket.receive,
           so.Socket._send_ping, so.Socket.handle_get_request,
           so.Socket.handle_post_request, bs.BaseServer._get_socket,
           sv.Server.disconnect, sv.Server._handle_connect,
           sv.Server.send_packet, sv.Server.handle_request,
           sv.Server._service_task,
           cl.Client.disconnect, cl.Client._receive_packet,
           cl.Client._send_packet, cl.Client._read_loop_polling,
           cl.Client._read_loop_websocket, cl.Client._write_loop]
    return [getattr(f, '__wrapped__', f).__code__ for f in fns]


def install(sched, seed, p=0.15):
    mon = sys.monitoring
    if not _state['installed']:
        mon.use_tool_id(TOOL, 'vf-preempt')
        mon.register_callback(TOOL, mon.events.LINE, _line)
        for c in targets():
            mon.set_local_events(TOOL, c, mon.events.LINE)
            _state['codes'].append(c)
        _state['installed'] = True
    _state['sched'] = sched
    _state['rng'] = random.Random(seed)
    _state['p'] = p
    _state['events'] = 0
    _state['preemptions'] = 0


def uninstall():
    _state['sched'] = None
    return _state['events'], _state['preemptions']

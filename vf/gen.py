"""Shared seeded generators of payloads and the independent wire-form reference
(written from the statement of C01/C02, not from the code)."""
import base64
import json
import math
import random

SEP = '\x1e'

UNI_POOL = ['a', 'Z', '0', '7', ' ', '"', '\\', '/', '\n', '\r', '\t', '\x00',
            '\x1f', '\x7f', '\x85', ' ', ' ', 'é', 'ß', '٣', '日',
            '😀', '\U0001F9D1', '<', '>', '&', '=', '%', '+', ':', ',', '{',
            '}', '[', ']', 'b', 'd', "'", ';', '﻿', '퟿', '']


def rtext(rng, lo=0, hi=24, pool=UNI_POOL):
    return ''.join(rng.choice(pool) for _ in range(rng.randint(lo, hi)))


def rbytes(rng, lo=0, hi=64):
    n = rng.randint(lo, hi)
    k = rng.random()
    if k < 0.15:
        return bytes(n)
    if k < 0.3:
        return bytes([0xff]) * n
    return bytes(rng.getrandbits(8) for _ in range(n))


def rjson(rng, depth=0):
    k = rng.random()
    if depth > 2 or k < 0.35:
        c = rng.randrange(8)
        if c == 0:
            return rng.randint(-10**6, 10**6)
        if c == 1:
            return rtext(rng, 0, 8)
        if c == 2:
            return rng.choice([0.5, -1.25, 1e300, 1e-7, 3.0, 0.1, 2.5e10])
        if c == 3:
            return None
        if c == 4:
            return rng.choice([True, False])
        if c == 5:
            return rng.randint(-10**97, 10**97)
        if c == 6:
            return {}
        return []
    if k < 0.7:
        return [rjson(rng, depth + 1) for _ in range(rng.randint(0, 4))]
    return {rtext(rng, 0, 5): rjson(rng, depth + 1)
            for _ in range(rng.randint(0, 4))}


JSON_LOOKALIKES = ['null', 'true', 'false', '1.5', '1e5', '-0.0', 'NaN',
                   'Infinity', '-Infinity', '"x"', '"\\u00e9"', '[1,2]',
                   '{"a":1}', ' {"a": [1, 2]} ', '[', '{', '{"a":}', '""',
                   ' null', 'null ', '[null]', '1.', '.5', '0x10', '1_000',
                   '[1' + '0' * 101 + ']', '"unterminated', '\tnull\n',
                   '[true,false]', '{"a":{"b":{"c":[]}}}', '-', '+1', '1e999',
                   '"\\ud83d\\ude00"', '[1.0,2.50]']
DIGIT_STRINGS = ['0', '7', '42', '-5', '007', '+3', '1' * 50, '9' * 100,
                 '9' * 101, '9' * 400, '-' + '1' * 120, '00', '٣٤', '１２']


def payload_classes():
    """name -> generator(rng) of packet data."""
    return {
        'none': lambda r: None,
        'empty': lambda r: '',
        'ascii': lambda r: rtext(r, 1, 30, 'abcXYZ xyz-_.'),
        'unicode': lambda r: rtext(r, 1, 30),
        'controls': lambda r: rtext(r, 1, 12, ['\x00', '\x01', '\x1e', '\x1f',
                                               '\n', '\r', ' ', 'a']),
        'digits': lambda r: r.choice(DIGIT_STRINGS),
        'lookalike': lambda r: r.choice(JSON_LOOKALIKES),
        'startb': lambda r: 'b' + rtext(r, 0, 12, 'ABCab=+/012 '),
        'bytes': lambda r: rbytes(r, 1, 64),
        'bytes0': lambda r: b'',
        'bytearray': lambda r: bytearray(rbytes(r, 0, 48)),
        'bytesbig': lambda r: rbytes(r, 1000, 4096),
        'dict': lambda r: {rtext(r, 0, 6): rjson(r) for _ in
                           range(r.randint(0, 5))},
        'list': lambda r: [rjson(r) for _ in range(r.randint(0, 6))],
        'bigint_json': lambda r: r.choice([
            [int('9' * 101)], {'n': -int('1' * 150)}, [1, [int('7' * 300)]]]),
        'float_json': lambda r: [r.choice([0.1, 1e-300, 1.7976931348623157e308,
                                           -0.0, 5e-324, 123456789.125])
                                 for _ in range(r.randint(1, 4))],
    }


def is_binary(d):
    return isinstance(d, (bytes, bytearray))


def ref_encode(ptype, data, b64):
    """The Engine.IO v4 representation per the statement of C01."""
    if is_binary(data):
        if b64:
            return 'b' + base64.standard_b64encode(bytes(data)).decode('ascii')
        return bytes(data)
    s = str(int(ptype))
    if isinstance(data, str):
        return s + data
    if isinstance(data, (dict, list)):
        return s + json.dumps(data, separators=(',', ':'))
    if data is None:
        return s
    raise TypeError('payload kind outside the API')


def _bounded_int(s):
    if len(s) > 100:
        raise ValueError('too long')
    return int(s)


def expected_text_decode(text):
    """What text must come back as (statement of C01): JSON object/array/
    string/float/null literal -> that value; integer-looking and everything
    else -> the text itself."""
    try:
        v = json.loads(text, parse_int=_bounded_int)
    except (ValueError, RecursionError):
        return text
    if isinstance(v, int):      # ints and booleans stay text
        return text
    return v


def expected_roundtrip(data):
    if data is None:
        return ''
    if is_binary(data):
        return bytes(data)
    if isinstance(data, str):
        return expected_text_decode(data)
    # dict / list: comes back by value unless an embedded integer is beyond
    # the documented 100-digit guard, in which case it comes back as text
    txt = json.dumps(data, separators=(',', ':'))
    return expected_text_decode(txt)


def same(a, b):
    """Type-aware, NaN-aware equality (bool is not int, bytes is not str)."""
    if isinstance(a, float) and isinstance(b, float):
        return (math.isnan(a) and math.isnan(b)) or \
            (a == b and math.copysign(1, a) == math.copysign(1, b))
    if type(a) is not type(b):
        if is_binary(a) and is_binary(b):
            return bytes(a) == bytes(b)
        return False
    if isinstance(a, list):
        return len(a) == len(b) and all(same(x, y) for x, y in zip(a, b))
    if isinstance(a, dict):
        return a.keys() == b.keys() and all(same(a[k], b[k]) for k in a)
    return a == b


def jsonable(x, limit=120):
    """Render a case value for evidence samples / replay files."""
    if is_binary(x):
        return {'bytes_b64': base64.b64encode(bytes(x)).decode('ascii'),
                'bytearray': isinstance(x, bytearray)}
    if isinstance(x, float) and (math.isnan(x) or math.isinf(x)):
        return {'float': repr(x)}
    if isinstance(x, list):
        return [jsonable(i) for i in x]
    if isinstance(x, tuple):
        return {'tuple': [jsonable(i) for i in x]}
    if isinstance(x, dict):
        return {'dict': [[k, jsonable(v)] for k, v in x.items()]}
    return x


def unjsonable(x):
    if isinstance(x, dict):
        if 'bytes_b64' in x:
            b = base64.b64decode(x['bytes_b64'])
            return bytearray(b) if x.get('bytearray') else b
        if 'float' in x:
            return float(x['float'])
        if 'tuple' in x:
            return tuple(unjsonable(i) for i in x['tuple'])
        if 'dict' in x:
            return {k: unjsonable(v) for k, v in x['dict']}
    if isinstance(x, list):
        return [unjsonable(i) for i in x]
    return x


def mkrng(*parts):
    return random.Random('/'.join(str(p) for p in parts))

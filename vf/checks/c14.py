"""C14 - inbound size and volume limits are exact and nothing oversize reaches
the application.

Monitor: instrumented body reader (sizes of every read / bytes pulled through
ASGI receive), payload sizes in the handler log, status and liveness, around
every configured limit.
"""
import base64

from vf import gen, scen
from vf.rec import Rec

PROPERTY = 'C14'
LEVEL = 'exploration'
RULE = ('limit M in {1,2,16,100,4096,10^6} x length in {0,1,M-2..M+2,2M,10M} '
        'x {text,binary} x declared length {<,=,> actual, no Content-Length} x path {POST, first '
        'frame of a websocket-only session, steady-state frame after upgrade, '
        'probe frame, UPGRADE-position frame, POST mid-upgrade} x packets per '
        'body 0..18 (plain and d= form-encoded) with max_decode_packets in '
        '{1,16} x server(2); quick = the '
        'whole grid with M<=4096, thorough adds M=10^6, chunked ASGI bodies '
        'and seeded random lengths. distinct = distinct (M, length class, '
        'kind, declared, path, server) cells evaluated')
ASSUMPTIONS = ['lengths are bytes for bodies and binary frames, characters '
               'for text frames; boundary cases use ASCII so both agree',
               'frames on the upgrade socket are governed by C06; here they '
               'only must never reach the app']
REQUIRED = ['post_limit', 'post_without_length', 'frame_limit', 'reader_bound',
            'exact_limit_accepted',
            'packet_count_bound']
SHARD_TIMEOUT = {'quick': 400, 'thorough': 3000}


def lengths(M):
    s = {0, 1, M - 2, M - 1, M, M + 1, M + 2, 2 * M, 10 * M}
    return sorted(x for x in s if x >= 0)


def lclass(L, M):
    if L in (M - 2, M - 1, M, M + 1, M + 2):
        return 'M%+d' % (L - M)
    return '0' if L == 0 else '1' if L == 1 else \
        '2M' if L == 2 * M else '10M' if L == 10 * M else 'other'


def make_body(L, binary, tag):
    """A polling body of exactly L bytes carrying one MESSAGE (L>=1)."""
    if L == 0:
        return b'', None
    if not binary:
        txt = (tag + 'a' * L)[:L - 1] if L > 1 else ''
        return ('4' + txt).encode('ascii'), txt
    # 'b' + base64: length 1 + 4*ceil(n/3); pick n and pad check
    n = max(0, ((L - 1) // 4) * 3)
    data = bytes((i * 7 + 3) % 256 for i in range(n))
    body = b'b' + base64.b64encode(data)
    if len(body) != L:
        return None, None      # this length is not expressible
    return body, data


def run_case(rec, case):
    M, L, binary, decl, path, srv = (case['M'], case['L'], case['binary'],
                                     case['decl'], case['path'], case['srv'])
    rec.evaluations += 1

    def V(key, msg):
        rec.viol(key, msg + ' | limit=%d length=%d %s declared=%s path=%s '
                 'server=%s' % (M, L, 'binary' if binary else 'text', decl,
                                path, srv), case)
    sim = scen.make_sim(srv, real_ws_driver=(L + M) % 2 == 1,
                        server_kwargs={'max_http_buffer_size': M},
                        body_chunks=case.get('chunks', 1))
    try:
        _run(rec, sim, case, M, L, binary, decl, path, srv, V)
    finally:
        sim.teardown()


def _run(rec, sim, case, M, L, binary, decl, path, srv, V):
    key = '%d/%s/%s/%s/%s/%s' % (M, lclass(L, M), binary, decl, path, srv)
    if path in ('post', 'post-mid-upgrade'):
        h = sim.open_polling()
        if path == 'post-mid-upgrade':
            if M < 6:
                return
            ws, t = sim.upgrade_ws(h)
            sim.quiesce()
            ws.send('2probe')
            sim.quiesce()
        body, want = make_body(L, binary, 'x')
        if body is None:
            return
        declared = {'eq': len(body), 'lt': max(0, len(body) - 1),
                    'gt': len(body) + 1, 'none': None}[decl]
        n0 = len(sim.events)
        # a real client keeps a poll pending; without one the error path of
        # an oversize POST runs into known finding K1 (C15's subject)
        pending = sim.poll(h) if path == 'post' else None
        sim.quiesce()
        if srv == 'H' and decl == 'lt':
            return      # not expressible as one HTTP/1.1 request
        if srv == 'N' and decl not in ('eq', 'none'):
            # (tornado hands a request to its handler once the whole declared
            # body has arrived: one that declares more than it sends is never
            # dispatched at all)
            return
        if declared is None:
            # no Content-Length at all (e.g. a chunked upload): nothing is
            # "declared larger", but nothing oversize may reach the app and no
            # more than the limit may be read
            q = {'transport': 'polling', 'EIO': '4', 'sid': h.sid}
            if srv == 'T':
                t = sim.request('POST', q, {}, body=body,
                                env_override={'CONTENT_LENGTH': None})
            else:
                t = sim.request('POST', q, {'content-length': None},
                                body=body)
            sim.quiesce()
            rec.count('post_without_length')
            rec.key(key)
            msgs = [e for e in sim.events[n0:] if e['ev'] == 'message']
            for m in msgs:
                d = m['data']
                if isinstance(d, (str, bytes)) and len(d) > M:
                    V('oversize-data-reached-app', 'handler got %d units > '
                      'limit %d from a POST without Content-Length' % (
                          len(d), M))
            if srv == 'T':
                asked = sum(r if (r is not None and r >= 0) else 10 ** 12
                            for r in t.reads)
                if asked > M:
                    V('reader-over-bound', 'body reader asked for %r bytes '
                      '(reads %r) of a body without Content-Length, limit %d'
                      % (asked, t.reads, M))
            if not t.done:
                V(scen.hang_signature(sim, t), 'POST without Content-Length '
                  'never answered: %s' % scen.hang_signature(sim, t))
            return
        t = sim.post(h, body, declared=declared)
        sim.quiesce()
        rec.count('post_limit')
        rec.key(key)
        msgs = [e for e in sim.events[n0:] if e['ev'] == 'message']
        # reader bound
        rec.count('reader_bound')
        bound = min(declared, M)
        if srv in ('T', 'H', 'N'):
            asked = sum(r if (r is not None and r >= 0) else 10 ** 12
                        for r in t.reads)
            if asked > bound:
                V('reader-over-bound', 'body reader asked for %r bytes (reads '
                  '%r), bound min(declared,limit)=%d' % (asked, t.reads, bound))
        else:
            if t.read_bytes > bound:
                V('asgi-prebuffer', 'pulled %d body bytes through receive(), '
                  'bound min(declared,limit)=%d' % (t.read_bytes, bound))
        if declared > M:
            if msgs:
                V('oversize-post-reached-app', 'handler received %r from a '
                  'POST declared %d > limit' % (msgs[0]['data'], declared))
            if not t.done:
                V(scen.hang_signature(sim, t), 'oversize POST never answered '
                  '(worker blocked: %s)' % scen.hang_signature(sim, t))
                return
            if t.code != 400:
                V('oversize-post-status', 'oversize POST answered %r (exc=%r)'
                  % (t.status, t.exc))
            # the session is ended
            dis = [e for e in sim.events[n0:] if e['ev'] == 'disconnect']
            p = sim.poll(h)
            sim.quiesce()
            if len(dis) != 1 or not p.done or p.code != 400:
                V('oversize-post-session-alive', 'after an oversize POST: %d '
                  'disconnect events, next poll done=%r status=%r' % (
                      len(dis), p.done, p.status))
        else:
            if decl == 'eq' and L >= 1:
                if len(body) == M:
                    rec.count('exact_limit_accepted')
                if not t.done or t.code != 200:
                    V('within-limit-post-refused', 'POST of %d bytes (limit '
                      '%d) answered %r exc=%r' % (len(body), M, t.status,
                                                  t.exc))
                elif len(msgs) != 1 or not gen.same(
                        msgs[0]['data'], gen.expected_roundtrip(want)):
                    V('within-limit-post-lost', 'POST within the limit '
                      'produced events %r' % ([repr(m['data'])[:60]
                                               for m in msgs],))
            for m in msgs:
                d = m['data']
                if isinstance(d, (str, bytes)) and len(d) > M:
                    V('oversize-data-reached-app', 'handler got %d units > '
                      'limit' % len(d))
        return
    # ---------------------------------------------------------- frames
    if binary:
        frame = bytes((i * 5 + 1) % 256 for i in range(L))
        want = frame
    else:
        frame = ('4' + 'f' * L)[:L]
        want = frame[1:]
    if L == 0:
        return
    if path == 'ws-first':
        h = sim.open_ws()
        ws = h.ws
    elif path == 'ws-steady':
        h = sim.open_polling()
        if M < 6:
            return
        ws, ok = sim.do_upgrade(h)
        if not ok:
            V('upgrade-failed', 'could not prepare an upgraded session')
            return
    elif path in ('ws-probe', 'ws-upgrade'):
        h = sim.open_polling()
        ws, t = sim.upgrade_ws(h)
        sim.quiesce()
        if path == 'ws-upgrade':
            if M < 6:
                return
            ws.send('2probe')
            sim.quiesce()
    if h.sid is None:
        V('open-failed', 'could not open a session: %r' % (
            h.open_ticket.status,))
        return
    if binary and srv in ('T', 'A') and (L + M) % 2 == 0:
        # a driver may hand binary frames over as a mutable buffer; the
        # limit applies to those like to any other frame
        rec.count('binary_frames_as_bytearray')
        sim.raw_bytearray = True
        frame = bytearray(frame)
    n0 = len(sim.events)
    if (L + 2 * M) % 3 == 0 and path in ('ws-first', 'ws-steady'):
        # the peer drains slowly just then: whatever the server writes in
        # answer to the frame (a Close frame, say) takes a while to go out
        rec.count('frames_while_the_peer_drains_slowly')
        ws.stall(0.5)
        ws.send(frame)
        sim.quiesce()
        sim.advance(1.0)
        sim.quiesce()
    else:
        ws.send(frame)
        sim.quiesce()
    rec.count('frame_limit')
    rec.key(key)
    msgs = [e for e in sim.events[n0:] if e['ev'] == 'message']
    if path in ('ws-probe', 'ws-upgrade'):
        if msgs:
            V('handshake-frame-reached-app', 'a frame sent in the handshake '
              'produced a message event')
        return
    if L > M:
        if msgs:
            V('oversize-frame-reached-app', 'handler received %d units from a '
              'frame of %d > limit %d' % (len(msgs[0]['data']), L, M))
        dis = [e for e in sim.events[n0:] if e['ev'] == 'disconnect']
        live = h.sid in sim.live_sids()
        if len(dis) != 1 or live:
            V('oversize-frame-session-alive', 'after an oversize frame: %d '
              'disconnect events, session live=%r' % (len(dis), live))
    else:
        if L == M:
            rec.count('exact_limit_accepted')
        if len(msgs) != 1 or not gen.same(msgs[0]['data'],
                                          gen.expected_roundtrip(want)):
            V('within-limit-frame-lost', 'frame of %d (limit %d) produced '
              'events %r; session live=%r' % (
                  L, M, [(m['ev'], repr(m.get('data', m.get('reason')))[:50])
                         for m in sim.events[n0:]],
                  h.sid in sim.live_sids()))


def run_count_case(rec, case):
    from engineio import payload
    k, limit, srv = case['k'], case['limit'], case['srv']
    rec.evaluations += 1
    old = payload.Payload.max_decode_packets
    payload.Payload.max_decode_packets = limit
    sim = scen.make_sim(srv)
    try:
        h = sim.open_polling()
        body = gen.SEP.join('4p%d' % i for i in range(k))
        if case.get('form') and k:
            import urllib.parse
            q = urllib.parse.quote if case['form'] == 'quote' else \
                urllib.parse.quote_plus
            body = 'd=' + q(body, safe='')
        n0 = len(sim.events)
        t = sim.post(h, body)
        sim.quiesce()
        rec.count('packet_count_bound')
        rec.key('count/%d/%d/%s/%s' % (k, limit, srv, case.get('form')))
        msgs = [e['data'] for e in sim.events[n0:] if e['ev'] == 'message']
        if len(msgs) > limit:
            rec.viol('too-many-packets-processed', '%d packets of one body '
                     'processed, limit %d (server %s)' % (len(msgs), limit,
                                                         srv), case)
        if k > limit and msgs:
            rec.viol('over-limit-body-processed', 'body of %d packets (limit '
                     '%d) produced %d events' % (k, limit, len(msgs)), case)
        if k <= limit and msgs != ['p%d' % i for i in range(k)]:
            rec.viol('within-limit-body-lost', 'body of %d packets (limit %d) '
                     'produced %r status %r' % (k, limit, msgs, t.status),
                     case)
    finally:
        payload.Payload.max_decode_packets = old
        sim.teardown()


def all_cases(tier, seed):
    cases = []
    Ms = [1, 2, 16, 100, 4096] + ([10 ** 6] if tier == 'thorough' else [])
    for M in Ms:
        for L in lengths(M):
            if L > 3 * 10 ** 6:
                continue
            for binary in (False, True):
                for srv in ('T', 'A', 'H', 'N'):
                    for path in ('post', 'post-mid-upgrade', 'ws-first',
                                 'ws-steady', 'ws-probe', 'ws-upgrade'):
                        decls = ['eq', 'lt', 'gt', 'none'] if \
                            path.startswith('post') else ['eq']
                        if srv == 'H':
                            # (bytes beyond the declared length are the
                            # next pipelined request, not part of this body;
                            # no length at all is a chunked upload)
                            decls = [d for d in decls
                                     if d in ('eq', 'gt', 'none')]
                        if srv == 'N':
                            decls = [d for d in decls if d in ('eq', 'none')]
                        for d in decls:
                            cases.append({'kind': 'size', 'M': M, 'L': L,
                                          'binary': binary, 'decl': d,
                                          'path': path, 'srv': srv})
    if tier == 'thorough':
        rng = gen.mkrng('c14', seed)
        for _ in range(80000):
            M = rng.choice([1, 2, 3, 7, 16, 100, 1000, 4096])
            cases.append({'kind': 'size', 'M': M,
                          'L': rng.randint(0, 3 * M + 3),
                          'binary': rng.random() < 0.5,
                          'decl': rng.choice(['eq', 'lt', 'gt', 'none']),
                          'path': rng.choice(['post', 'post-mid-upgrade',
                                              'ws-first', 'ws-steady']),
                          'srv': rng.choice('TAHN'),
                          'chunks': rng.choice([1, 2, 5])})
    # a limit raised above the default, and bodies between the default and
    # the raised limit, delivered in several pieces where the gateway does
    # that: the configured limit is the only limit
    for binary in (False, True):
        for srv in ('T', 'A', 'H', 'N'):
            for L in (1200000, 1999990):
                cases.append({'kind': 'size', 'M': 2000000, 'L': L,
                              'binary': binary, 'decl': 'eq', 'path': 'post',
                              'srv': srv, 'chunks': 5})
    for k in range(0, 19):
        for limit in (1, 16):
            for srv in ('T', 'A', 'H', 'N'):
                for form in (None, 'quote', 'plus'):
                    cases.append({'kind': 'count', 'k': k, 'limit': limit,
                                  'srv': srv, 'form': form})
    return cases


def dispatch(rec, case):
    if case['kind'] == 'count':
        run_count_case(rec, case)
    else:
        run_case(rec, case)


def plan(tier, seed):
    cases = all_cases(tier, seed)
    n = 16
    return [{'cases': cases[i::n]} for i in range(n)]


def run_shard(spec):
    rec = Rec()
    scen.run_cases(rec, spec['cases'], dispatch)
    for c in spec['cases'][:2]:
        rec.sample(c)
    return rec.result()


replay = scen.simple_replay(dispatch)

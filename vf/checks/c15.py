"""C15 - every request and API call completes with a well-formed gateway
response.

Monitors: gateway-protocol monitors (stdlib wsgiref.validate plus a recorder
on the WSGI side; an ASGI event automaton on the asyncio side, both wrapped
around the real WSGIApp / ASGIApp entry points), the scheduler's hang
detector with a stack witness (bounded progress in virtual time), and capture
of exceptions escaping request handlers, API calls and background tasks.
"""
import itertools

from vf import gen, scen
from vf.rec import Rec
from vf.checks import c12

PROPERTY = 'C15'
LEVEL = 'fault_enumeration'
RULE = ('fault enumeration: method(5) x session state named by the request(9: '
        'absent, live with a poll pending, live without, upgraded, '
        'mid-upgrade, closed-not-reaped, unknown, rejected, client gone) x '
        'body(14: valid, empty, bad digit, bad base64, 10^4-deep JSON, 17 and '
        '1000 packets, invalid UTF-8, d= form, blank d=, non-numeric / '
        'negative / missing Content-Length, oversize) x transport parameter(3) '
        'x JSONP(3) x server(2), plus the API calls send / disconnect(sid) / '
        'disconnect() in every session state including an empty server; plus '
        'requests with unusual but legal headers / query strings / framing '
        '(undecodable header bytes and query bytes, duplicated headers, body '
        'in several ASGI chunks, no query, 64 kB header, odd Accept-Encoding, '
        'lower-case method, no Host, CORS request headers, ASGI client gone '
        'before the body was read) x method x state; plus '
        'the same requests / calls issued at seeded points of generated '
        'session histories under random schedules. '
        'plus a pre-emptive tier: 2..4 requests / API calls naming one session '
        'issued at one instant on the OS-thread backend with seeded line-level '
        'pre-emption inside the server functions, each alarm re-run '
        'cooperatively as a control. '
        'thorough = all cells; quick = seeded sample + all API cells. '
        'distinct = distinct cells; each evaluates completion, status and '
        'gateway-protocol oracles; third server = asyncio behind the real '
        'aiohttp adapter, observed as HTTP/1.1 and RFC 6455 bytes; competing '
        'upgrade sockets (3 timings x 5 behaviours of the late-comer) with '
        'state oracles; bursts of 400 sends in every session state')
ASSUMPTIONS = ['a long-poll may legitimately take ping_interval+ping_timeout; '
               'every other request and API call must finish without virtual '
               'time advancing',
               'WebSocket handshake requests are exempt from the HTTP response '
               'oracle (statement: non-upgrade requests)']
REQUIRED = ['request_completion', 'status_set', 'gateway_protocol',
            'api_completion', 'background_exceptions', 'wsgi_validator',
            'history_probes', 'odd_requests', 'slow_handler_disconnects',
            'competing_upgrades',
            'preempt_scenarios',
            'preemptions']
SHARD_TIMEOUT = {'quick': 500, 'thorough': 3400}

METHODS = ['GET', 'POST', 'OPTIONS', 'PUT', 'DELETE', 'HEAD']
STATES = ['absent', 'live-poll', 'live', 'upgraded', 'mid', 'closed',
          'unknown', 'rejected', 'gone']
BODIES = ['valid', 'empty', 'baddigit', 'badb64', 'deepjson', 'p17', 'p1000',
          'badutf8', 'form', 'blankform', 'cl-abc', 'cl-neg', 'cl-missing',
          'oversize']
TRANSP = ['polling', 'websocket', 'foo']
JP = [None, '0', 'abc']
SRV = ['T', 'A', 'H', 'N']  # H / N: the asyncio server behind the real aiohttp / tornado adapter
API = ['send', 'disconnect-sid', 'disconnect-all', 'send-burst']
API_STATES = ['none'] + STATES[1:] + ['overdue']
PI, PT = 25, 20


def body_of(name):
    """-> (body bytes, declared content-length or None=len, env tweak)"""
    if name == 'valid':
        return b'4hello', None, None
    if name == 'empty':
        return b'', None, None
    if name == 'baddigit':
        return b'x', None, None
    if name == 'badb64':
        return b'4ok\x1ebA', None, None
    if name == 'deepjson':
        return b'4' + b'[' * 10000, None, None
    if name == 'p17':
        return gen.SEP.join('4p%d' % i for i in range(17)).encode(), None, None
    if name == 'p1000':
        return gen.SEP.join('4p%d' % i for i in range(1000)).encode(), None, \
            None
    if name == 'badutf8':
        return b'4\xff\xfe\xfa', None, None
    if name == 'form':
        return b'd=4hello%1E4world', None, None
    if name == 'blankform':
        return b'd=', None, None
    if name == 'cl-abc':
        return b'4hello', 'abc', None
    if name == 'cl-neg':
        return b'4hello', '-1', None
    if name == 'cl-missing':
        return b'4hello', 'missing', None
    return b'4' + b'a' * 2000, None, None       # limit is 1000


def prepare(sim, want):
    """Session in the state `want`; returns (sid or None, objects to keep)."""
    if want in ('absent', 'none'):
        return None, None
    if want == 'unknown':
        return 'nosuchsidAAAAAAAAAAA', None
    if want == 'rejected':
        sim.connect_script = [None] * sim.nconnect + [False]
        sim.open_polling()
        return [e for e in sim.events if e['ev'] == 'connect'][-1]['sid'], None
    h = sim.open_polling()
    keep = [h]
    if want == 'live-poll':
        keep.append(sim.poll(h))
        sim.quiesce()
    elif want == 'upgraded':
        ws, ok = sim.do_upgrade(h)
        keep.append(ws)
    elif want == 'gone':
        ws, ok = sim.do_upgrade(h)
        ws.vanish()
        keep.append(ws)
    elif want == 'mid':
        ws, t = sim.upgrade_ws(h)
        sim.quiesce()
        ws.send('2probe')
        sim.quiesce()
        keep.append(ws)
    elif want == 'closed':
        sim.post(h, '1')
        sim.quiesce()
    return h.sid, keep


def judge_background(rec, sim, V):
    rec.count('background_exceptions')
    esc = scen.escaped(sim)
    if esc:
        V('background-task-exception', 'exception escaped a background task: '
          '%r' % (esc[:2],))


def run_req(rec, case):
    im, ist, ib, itr, ij, isrv = case['cell']
    method, state, bname = METHODS[im], STATES[ist], BODIES[ib]
    transport, jp, srv = TRANSP[itr], JP[ij], SRV[isrv]
    rec.evaluations += 1
    rec.key('req/' + ','.join(map(str, case['cell'])))
    body, declared, _ = body_of(bname)
    wellformed_env = declared is None
    sim = scen.make_sim(srv, server_kwargs={
        'max_http_buffer_size': 1000, 'ping_interval': PI,
        'ping_timeout': PT}, validate=wellformed_env)
    desc = '%s state=%s body=%s transport=%s j=%r server=%s' % (
        method, state, bname, transport, jp, srv)

    def V(key, msg):
        rec.viol(key, msg + ' | ' + desc, case)
    try:
        sid, keep = prepare(sim, state)
        q = {'transport': transport, 'EIO': '4'}
        if sid is not None:
            q['sid'] = sid
        if jp is not None:
            q['j'] = jp
        has_body = method in ('POST', 'PUT')
        kwargs = {}
        if has_body:
            kwargs['body'] = body
            if declared == 'missing':
                kwargs['env_override'] = {'CONTENT_LENGTH': None}
                if srv != 'T':
                    kwargs.pop('env_override')
                    kwargs['headers'] = {'content-length': None}
            elif declared is not None:
                kwargs['declared'] = declared
        t = sim.request(method, q, kwargs.pop('headers', None) or {},
                        **kwargs)
        sim.quiesce()
        rec.count('request_completion')
        if wellformed_env and srv == 'T':
            rec.count('wsgi_validator')
        if not t.done:
            # only an admitted long-poll may wait, and only for pi+pt
            sig = scen.hang_signature(sim, t)
            if method == 'GET' and sig == 'not-hung':
                sim.advance(PI + PT + 0.01)
            if not t.done:
                V(sig if sig != 'not-hung' else 'poll-overdue',
                  'request did not complete: worker blocked in %s' %
                  scen.hang_signature(sim, t))
                return
        if t.exc is not None:
            V('request-raises-%s' % type(t.exc).__name__,
              'exception escaped the gateway application: %r %s' % (
                  t.exc, getattr(t, 'exc_tb', '')[-300:]))
            return
        rec.count('status_set')
        if t.code not in (200, 400, 401, 405):
            V('status-outside-set', 'status %r' % (t.status,))
        rec.count('gateway_protocol')
        if t.proto:
            V('gateway-protocol', 'gateway protocol violated: %r' % (
                t.proto[:3],))
        judge_background(rec, sim, V)
        if rec.evaluations % 487 == 1:
            rec.sample({'request': desc, 'status': t.status})
    finally:
        sim.teardown()


ODD = ['bad-utf8-header', 'bad-utf8-query', 'dup-header', 'chunked-body',
       'no-query', 'huge-header', 'odd-accept-encoding', 'lowercase-method',
       'no-host', 'origin-and-cors-request-headers', 'encoded-path',
       'client-gone-before-body', 'upgrade-header-without-connection',
       'upgrade-header-connection-close', 'non-latin1-reflected-header',
       'body-on-bodyless-method']


def run_odd(rec, case):
    """Requests whose headers / query string / framing are unusual but legal
    at the gateway boundary."""
    iodd, im, ist, isrv = case['odd']
    odd, method, state, srv = ODD[iodd], METHODS[im], STATES[ist], SRV[isrv]
    rec.evaluations += 1
    rec.count('odd_requests')
    rec.key('odd/' + ','.join(map(str, case['odd'])))
    sim = scen.make_sim(srv, server_kwargs={
        'max_http_buffer_size': 1000, 'ping_interval': PI,
        'ping_timeout': PT,
        # (every answer is large enough for the Accept-Encoding header to be
        # looked at)
        'compression_threshold': 0 if odd == 'odd-accept-encoding' else 1024})
    desc = 'ODD %s %s state=%s server=%s' % (odd, method, state, srv)

    def V(key, msg):
        # known finding K10 is keyed by its mechanism: an OPEN request (no
        # sid) naming the websocket transport with an Upgrade header but
        # without the Connection: upgrade token, answered with no / a
        # malformed response
        if odd.startswith('upgrade-header-') and method == 'GET' and \
                state == 'absent' and key in ('gateway-protocol',
                                              'status-outside-set'):
            key = 'upgrade-header-without-connection-upgrade'
        rec.viol(key, msg + ' | ' + desc, case)
    try:
        sid, keep = prepare(sim, state)
        q = {'transport': 'polling', 'EIO': '4'}
        if sid is not None:
            q['sid'] = sid
        headers, kw = {}, {}
        body = b'4hello' if method in ('POST', 'PUT') else None
        if odd == 'bad-utf8-header':
            if srv == 'T':
                headers['X-Odd'] = '\xff\xfe\x80'
            else:
                kw['scope_extra_headers'] = [(b'x-odd', b'\xff\xfe\x80'),
                                             (b'\xff-name', b'v')]
        elif odd == 'bad-utf8-query':
            if srv == 'T':
                kw['env_override'] = {
                    'QUERY_STRING': sim.qs(q) + '&x=\xff%FF%zz'}
            else:
                kw['scope_override'] = {
                    'query_string': sim.qs(q).encode() + b'&x=\xff%FF%zz'}
        elif odd == 'dup-header':
            if srv == 'T':
                headers['X-Dup'] = '1,2'
                headers['Cookie'] = 'a=1; io=zzz'
            else:
                kw['scope_extra_headers'] = [(b'x-dup', b'1'), (b'x-dup', b'2'),
                                             (b'cookie', b'a=1'),
                                             (b'cookie', b'io=zzz')]
        elif odd == 'chunked-body':
            if srv == 'A':
                sim.body_chunks = 3
            body = b'4hello\x1e4world' if body is not None else None
        elif odd == 'no-query':
            if srv == 'T':
                kw['env_override'] = {'QUERY_STRING': ''}
            else:
                kw['scope_override'] = {'query_string': b''}
        elif odd == 'huge-header':
            headers['X-Big'] = 'v' * 65536
        elif odd == 'odd-accept-encoding':
            headers['Accept-Encoding'] = ['gzip;q=abc, ,;, deflate;q=',
                                          'deflate;q, gzip;q=high',
                                          ';q=1, gzip ; q = 0.5'][
                (im + ist) % 3]
        elif odd == 'lowercase-method':
            if srv == 'T':
                kw['env_override'] = {'REQUEST_METHOD': method.lower()}
            else:
                kw['scope_override'] = {'method': method.lower()}
        elif odd == 'no-host':
            headers['Host'] = None
        elif odd == 'origin-and-cors-request-headers':
            headers['Origin'] = 'http://srv.test'
            headers['Access-Control-Request-Headers'] = 'x-a, x-b'
            headers['Access-Control-Request-Method'] = 'POST'
        elif odd == 'client-gone-before-body':
            # ASGI: the first receive() yields http.disconnect. Nobody is
            # left to answer; the application must still return normally
            if srv == 'T':
                return
            if srv in scen.HTTPB and method not in ('GET', 'POST', 'OPTIONS'):
                return      # answered by the web framework, not by the package
            sim.client_gone_early = True
        elif odd in ('upgrade-header-without-connection',
                     'upgrade-header-connection-close'):
            # a plain HTTP request (NOT a WebSocket handshake: no
            # "Connection: upgrade") that still carries "Upgrade: websocket"
            # and names the websocket transport - what a proxy forwarding
            # Upgrade but not the hop-by-hop Connection header produces
            q['transport'] = 'websocket'
            headers['Upgrade'] = 'websocket'
            if odd.endswith('close'):
                headers['Connection'] = 'close'
        elif odd == 'non-latin1-reflected-header':
            # a header the server reflects into its answer (CORS request
            # headers), valid UTF-8 but outside ISO-8859-1
            raw = 'x-caf\u00e9, x-\u20ac-\u4e2d'.encode('utf-8')
            headers['Origin'] = 'http://srv.test'
            if srv == 'T':
                # (PEP 3333: header bytes arrive as latin-1 native strings)
                headers['Access-Control-Request-Headers'] = \
                    raw.decode('latin-1')
            else:
                kw['scope_extra_headers'] = [
                    (b'access-control-request-headers', raw)]
        elif odd == 'body-on-bodyless-method':
            # a request body (with its Content-Length) on GET / OPTIONS /
            # DELETE / HEAD: legal HTTP, simply not expected
            body = b'4surprise\x1e1'
        elif odd == 'encoded-path':
            kw['path'] = '/engine.io/%2e%2e/x'
        if srv == 'N' and odd == 'huge-header':
            # tornado drops a connection whose header block exceeds 64 KiB
            # without an answer and without involving the package
            return
        if srv in scen.HTTPB:
            # the same unusual requests as HTTP/1.1 bytes, where they can be
            # expressed that way
            if odd in ('lowercase-method', 'no-host'):
                return
            if odd == 'chunked-body':
                if body is None:
                    return
                headers['content-length'] = None    # = a chunked upload
            for k, v in kw.pop('scope_extra_headers', []):
                headers.setdefault(k.decode('latin-1'), [])
                headers[k.decode('latin-1')].append(v.decode('latin-1'))
            so = kw.pop('scope_override', None) or {}
            if 'query_string' in so:
                kw['raw_query'] = so['query_string'].decode('latin-1')
        if srv == 'A' and 'scope_extra_headers' in kw:
            extra = kw.pop('scope_extra_headers')
            base = sim.scope(method, q, headers, None, body=body)
            kw['scope_override'] = dict(kw.get('scope_override', {}),
                                        headers=base['headers'] + extra)
        kw.pop('scope_extra_headers', None)
        if body is not None:
            kw['body'] = body
        t = sim.request(method, q, headers, **kw)
        sim.quiesce()
        if odd == 'client-gone-before-body' and srv in scen.HTTPB:
            sim.advance(0.5)    # (the client drops while a middleware awaits)
            sim.mw_delay = 0
        rec.count('request_completion')
        if not t.done:
            sig = scen.hang_signature(sim, t)
            if method == 'GET' and sig == 'not-hung':
                sim.advance(PI + PT + 0.01)
            if not t.done:
                V(sig if sig != 'not-hung' else 'poll-overdue',
                  'request did not complete: worker blocked in %s' % sig)
                return
        if t.exc is not None:
            V('request-raises-%s' % type(t.exc).__name__,
              'exception escaped the gateway application: %r %s' % (
                  t.exc, getattr(t, 'exc_tb', '')[-300:]))
            return
        if odd == 'client-gone-before-body' and t.status is None:
            rec.count('gateway_protocol')
            if t.proto:
                V('gateway-protocol', 'gateway protocol violated: %r' % (
                    t.proto[:3],))
            return
        rec.count('status_set')
        # (a path that is not the endpoint may be answered 404 by the gateway)
        if t.code not in (200, 400, 401, 405) and not (
                odd == 'encoded-path' and t.code == 404):
            V('status-outside-set', 'status %r' % (t.status,))
        rec.count('gateway_protocol')
        if t.proto:
            V('gateway-protocol', 'gateway protocol violated: %r' % (
                t.proto[:3],))
        judge_background(rec, sim, V)
    finally:
        sim.teardown()


def run_api(rec, case):
    call, state, srv = case['api']
    rec.evaluations += 1
    rec.key('api/%s/%s/%s' % (call, state, srv))
    kw = {'ping_interval': PI, 'ping_timeout': PT}
    if state == 'overdue':
        # nobody sweeps: the overdue session is still in the table when the
        # application calls
        kw['monitor_clients'] = False
    sim = scen.make_sim(srv, server_kwargs=kw)
    desc = 'api=%s state=%s server=%s' % (call, state, srv)

    def V(key, msg):
        rec.viol(key, msg + ' | ' + desc, case)
    try:
        if state == 'overdue':
            # a polling client that fetched its PING and then went silent:
            # no PONG, no further poll, the ping timeout has elapsed
            h = sim.open_polling()
            sim.poll(h)
            sim.advance(PI + 0.5)
            sim.advance(PT + 0.5)
            sid, keep = h.sid, [h]
        else:
            sid, keep = prepare(sim, state)
        if call == 'send':
            t = sim.app_call('send', sid or 'nosuchsidAAAAAAAAAAA', 'data')
        elif call == 'send-burst':
            # far more packets than any client collects at once: the
            # application's calls return all the same
            rec.count('send_bursts')
            t = sim.app_seq([('send', (sid or 'nosuchsidAAAAAAAAAAA',
                                       'burst-%d' % k)) for k in range(400)])
        elif call == 'disconnect-sid':
            t = sim.app_call('disconnect', sid or 'nosuchsidAAAAAAAAAAA')
        else:
            t = sim.app_call('disconnect')
        sim.quiesce()
        rec.count('api_completion')
        if not t.done:
            sig = scen.hang_signature(sim, t)
            if state == 'overdue':
                # (not K1: nothing is waiting to be read by a client that is
                # already overdue - the CLOSE packet is dropped for it)
                sig = 'api-call-on-overdue-session-hangs'
            V(sig, 'API call did not return: blocked in %s' %
              scen.hang_signature(sim, t))
            return
        if t.exc is not None:
            V('api-raises-%s-%s' % (type(t.exc).__name__, call),
              'API call raised %r' % (t.exc,))
        judge_background(rec, sim, V)
        # a second disconnect() and a send afterwards are harmless too
        t2 = sim.app_call('disconnect')
        t3 = sim.app_call('send', sid or 'x', 'again')
        sim.quiesce()
        for tk in (t2, t3):
            if tk.done and tk.exc is not None:
                V('api-raises-%s-%s' % (type(tk.exc).__name__,
                                        tk.info['call']),
                  'follow-up API call %s raised %r' % (tk.info['call'],
                                                       tk.exc))
    finally:
        sim.teardown()


def run_slowdisc(rec, case):
    """disconnect(sid) / disconnect() while the application's disconnect
    handler takes a while, and the polling client's next long-poll arrives
    during it: the poll collects the CLOSE packet and the call returns."""
    srv, call, when = case['slowdisc']
    rec.evaluations += 1
    rec.count('slow_handler_disconnects')
    rec.key('slowdisc/%s/%s/%s' % (srv, call, when))
    sim = scen.make_sim(srv, server_kwargs={'ping_interval': PI,
                                            'ping_timeout': PT},
                        handler_cfg={'suspend': {'disconnect': 0.5}})
    desc = 'SLOW-HANDLER %s poll arrives %s server=%s' % (call, when, srv)

    def V(key, msg):
        rec.viol(key, msg + ' | ' + desc, case)
    try:
        h = sim.open_polling()
        p = None
        if when == 'before':
            p = sim.poll(h)
            sim.quiesce()
        t = sim.app_call('disconnect', *([h.sid] if call == 'sid' else []))
        sim.quiesce()
        if when == 'during':
            sim.advance(0.25)
            p = sim.poll(h)
            sim.quiesce()
        sim.advance(1.0)
        sim.quiesce()
        if not p.done or p.code != 200 or '1' not in p.text().split(gen.SEP):
            V('poll-during-disconnect-refused', 'the long-poll that arrived '
              '%s the disconnect handler ran was answered done=%r status=%r '
              'body=%r instead of collecting the CLOSE packet' % (
                  when, p.done, p.status, (p.body or b'')[:40]))
        if not t.done:
            V('disconnect-hangs-although-client-polled', 'disconnect() has '
              'not returned 1 s after its handler finished although the '
              'client polled: blocked in %s' % scen.hang_signature(sim, t))
        elif t.exc is not None:
            V('api-raises-%s-disconnect' % type(t.exc).__name__,
              'disconnect raised %r' % (t.exc,))
        judge_background(rec, sim, V)
    finally:
        sim.teardown()


def run_compete(rec, case):
    """Two upgrade sockets competing for ONE polling session (the second is
    accepted before the first completes). Whatever the server makes of the
    loser, every event it emits on either WebSocket scope stays in a legal
    order, the winner keeps working both ways, and the session ends once."""
    srv, b_when, b_act, a_end = case['compete']
    rec.evaluations += 1
    rec.count('competing_upgrades')
    rec.key('compete/' + '/'.join(case['compete']))
    sim = scen.make_sim(srv, server_kwargs={'ping_interval': PI,
                                            'ping_timeout': PT})
    desc = 'COMPETING-UPGRADES second socket %s, then %s; first ends by %s; ' \
        'server=%s' % (b_when, b_act, a_end, srv)

    def V(key, msg):
        rec.viol(key, msg + ' | ' + desc, case)
    try:
        h = sim.open_polling()
        p = sim.poll(h)
        wsA, tA = sim.upgrade_ws(h)
        sim.quiesce()
        wsB = None
        if b_when == 'before-probe':
            wsB, tB = sim.upgrade_ws(h)
            sim.quiesce()
        if b_when == 'accept-delayed':
            # the second request is let in now, but the driver's part of its
            # handshake takes so long that the session's own handler for it
            # only starts after the first socket has completed the upgrade
            wsB = sim.new_ws()
            wsB.accept_delay = 0.5
            tB = sim.request('GET', {'transport': 'websocket', 'EIO': '4',
                                     'sid': h.sid},
                             {'Upgrade': 'websocket',
                              'Connection': 'Upgrade'}, ws=wsB)
            tB.ws = wsB
            wsB.ticket = tB
            sim.quiesce()
        wsA.send('2probe')
        sim.quiesce()
        if b_when in ('after-probe', 'probes-early'):
            wsB, tB = sim.upgrade_ws(h)
            sim.quiesce()
        if b_when == 'probes-early':
            # the late-comer is probed too BEFORE the first socket completes
            wsB.send('2probe')
            sim.quiesce()
        wsA.send('5')
        sim.quiesce()
        if b_when == 'accept-delayed':
            sim.advance(0.75)
            sim.quiesce()
        if b_act == 'wrong-first':
            wsB.send('4x')
        elif b_act == 'close':
            wsB.close()
        else:
            if b_when != 'probes-early':
                wsB.send('2probe')
            sim.quiesce()
            if b_act == 'probe-then-wrong':
                wsB.send('4x')
            elif b_act == 'probe-then-close':
                wsB.close()
            elif b_act == 'probe-then-upgrade':
                # the late-comer goes through the whole handshake although
                # the session has been upgraded by the first socket meanwhile
                wsB.send('5')
        sim.quiesce()
        n0 = len(sim.events)
        sim.app_call('send', h.sid, 'after')
        wsA.send('4fromclient')
        sim.quiesce()
        if '4after' not in [f['frame'] for f in wsA.frames] or not any(
                e['ev'] == 'message' and e['data'] == 'fromclient'
                for e in sim.events[n0:]):
            V('established-socket-disturbed', 'after the competing attempt '
              'failed the first socket carries %r, events %r' % (
                  [f['frame'] for f in wsA.frames],
                  [(e['ev'], e.get('data')) for e in sim.events[n0:]]))
        # ... and the session is still a WebSocket session: a polling read
        # naming it is refused and takes nothing from the socket's queue
        rec.count('compete_transport_after')
        if sim.transport_of(h.sid) != 'websocket':
            V('established-socket-disturbed', 'after the competing attempt '
              'failed transport() reports %r for the session living on the '
              'first WebSocket' % (sim.transport_of(h.sid),))
        sim.app_call('send', h.sid, 'after2')
        pr = sim.poll(h)
        sim.quiesce()
        if not pr.done or pr.code != 400 or \
                '4after2' not in [f['frame'] for f in wsA.frames]:
            V('established-socket-disturbed', 'a polling read naming the '
              'upgraded session after the competing attempt failed: done=%r '
              'status=%r body=%r; first socket carries %r' % (
                  pr.done, pr.status, (pr.body or b'')[:60],
                  [f['frame'] for f in wsA.frames][-3:]))
        if [f for f in wsB.frames if isinstance(f['frame'], str) and
                f['frame'].startswith('4')]:
            V('established-socket-disturbed', 'messages of the session were '
              'delivered on the competing socket: %r' % (
                  [f['frame'] for f in wsB.frames],))
        if a_end == 'client-close':
            wsA.close()
        elif a_end == 'disconnect':
            sim.app_call('disconnect', h.sid)
        sim.quiesce()
        sim.advance(PI + 3 * PT + PI + PT)
        sim.quiesce()
        dis = [e for e in sim.events if e['ev'] == 'disconnect']
        if len(dis) != 1:
            V('disconnect-count-after-competing-upgrades', '%d disconnect '
              'events %r' % (len(dis), [d['reason'] for d in dis]))
        rec.count('gateway_protocol')
        for name, w in (('first', wsA), ('second', wsB)):
            if w.proto:
                V('gateway-protocol', 'illegal event order on the %s '
                  'WebSocket scope: %r' % (name, w.proto[:3]))
        judge_background(rec, sim, V)
    finally:
        sim.teardown()


def run_compete_fail(rec, case):
    """Two upgrade sockets on one polling session that BOTH fail (the second
    opened while the first was still in its handshake; the first ends
    before the second): afterwards the session is an ordinary polling session
    again - a poll returns what is queued, and a later upgrade succeeds."""
    srv, a_probed, a_how, b_probed, b_how = case['competefail']
    rec.evaluations += 1
    rec.count('competing_upgrades_both_failing')
    rec.key('competefail/' + '/'.join(map(str, case['competefail'])))
    sim = scen.make_sim(srv, server_kwargs={'ping_interval': PI,
                                            'ping_timeout': PT})
    desc = ('COMPETING-UPGRADES-BOTH-FAIL first socket %s then %s; second '
            'socket %s then %s; server=%s' % (
                'probed' if a_probed else 'unprobed', a_how,
                'probed' if b_probed else 'unprobed', b_how, srv))

    def V(key, msg):
        rec.viol(key, msg + ' | ' + desc, case)

    def fail(ws, how):
        if how == 'wrong':
            ws.send('4x')
        else:
            ws.close()
        sim.quiesce()
        ws.close()
        sim.quiesce()
    try:
        h = sim.open_polling()
        p0 = sim.poll(h)
        wsA, tA = sim.upgrade_ws(h)
        sim.quiesce()
        if a_probed:
            wsA.send('2probe')
            sim.quiesce()
        wsB, tB = sim.upgrade_ws(h)
        sim.quiesce()
        if b_probed:
            wsB.send('2probe')
            sim.quiesce()
        fail(wsA, a_how)
        fail(wsB, b_how)
        sim.app_call('send', h.sid, 'after-both')
        sim.quiesce()
        from vf.simbase import decode_payload
        got = []
        if p0.done and p0.code == 200:
            got += [d for tp, d in decode_payload(p0.text()) if tp == 4]
        for _ in range(3):
            if 'after-both' in got or not p0.done:
                break
            p = sim.poll(h)
            sim.quiesce()
            if p.done and p.code == 200:
                got += [d for tp, d in decode_payload(p.text()) if tp == 4]
        if not p0.done:
            # the poll that was pending all along gets it
            sim.quiesce()
        if 'after-both' not in got:
            V('queued-message-not-retrievable-after-failed-upgrades',
              'three polls after both attempts failed returned %r (flags: %r)'
              % (got, {k: v for k, v in (sim.snapshot().get(h.sid) or
                                         {}).items()
                       if k in ('upgrading', 'upgraded', 'closed')}))
            return
        ws3, ok = sim.do_upgrade(h)
        if not ok:
            V('later-upgrade-refused', 'a correct upgrade after the two '
              'failed attempts did not complete')
        rec.count('gateway_protocol')
        for name, w in (('first', wsA), ('second', wsB)):
            if w.proto:
                V('gateway-protocol', 'illegal event order on the %s '
                  'WebSocket scope: %r' % (name, w.proto[:3]))
        judge_background(rec, sim, V)
    finally:
        sim.teardown()


def run_hist(rec, case):
    """Requests of the cross product and API calls issued at seeded points of
    a generated session history (polls pending or not, mid-handshake,
    upgraded, clients gone, sessions closed but not reaped)."""
    from vf import hist
    rng = gen.mkrng('c15h', case['seed'], case['i'])
    srv = rng.choice('TA')
    rec.evaluations += 1
    sim = scen.make_sim(srv, server_kwargs={
        'max_http_buffer_size': 1000, 'ping_interval': PI,
        'ping_timeout': PT}, policy='random', seed=rng.randrange(1 << 30),
        yield_prob=rng.choice([0.0, 0.3]))
    R = hist.Runner(sim)
    probes = []

    def V(key, msg):
        rec.viol(key, msg + ' | HISTORY server=%s history=%s' % (
            srv, R.witness(25)), case)
    try:
        for _ in range(rng.randint(1, 3)):
            m = rng.choice(['polling', 'websocket', 'upgrade'])
            s = R.open('websocket' if m == 'websocket' else 'polling',
                       autopoll=rng.random() < 0.7, autopong=0)
            if s.accepted and m == 'upgrade':
                R.upgrade_start(s, rng.choice(['correct', 'manual']))
                sim.quiesce()
        for step in range(rng.randint(4, 16)):
            live = [x for x in R.S if x.accepted]
            if not live:
                break
            s = rng.choice(live)
            k = rng.random()
            if k < 0.15:
                R.send(s, 'text')
            elif k < 0.3:
                uid, data, wire = R.up_payload(s, 'text')
                if s.mode == 'websocket' and s.ws is not None:
                    R.ws_send(s, wire)
                else:
                    R.post_raw(s, wire)
            elif k < 0.36:
                R.post_raw(s, '1') if s.mode == 'polling' else \
                    R.ws_send(s, '1')
            elif k < 0.42:
                R.vanish(s)
            elif k < 0.47 and s.mode == 'websocket':
                R.ws_close(s, 'close')
            elif k < 0.55:
                R.advance(rng.choice([1, PI, PT, PI + PT]))
            else:
                # a probe request / API call at this point of the history
                method = rng.choice(METHODS)
                bname = rng.choice(BODIES)
                body, declared, _ = body_of(bname)
                q = {'transport': rng.choice(TRANSP), 'EIO': '4'}
                if rng.random() < 0.8:
                    q['sid'] = s.sid
                if rng.random() < 0.2:
                    q['j'] = rng.choice(['0', 'abc'])
                kw = {}
                if method in ('POST', 'PUT'):
                    kw['body'] = body
                    if declared not in (None, 'missing'):
                        kw['declared'] = declared
                if rng.random() < 0.25:
                    if rng.random() < 0.5:
                        t = sim.app_call('send', s.sid, 'probe-data')
                    else:
                        t = sim.app_call('disconnect', s.sid)
                    t.kind_ = 'api'
                else:
                    t = sim.request(method, q, {}, **kw)
                    t.kind_ = 'req'
                    t.desc = '%s %r body=%s' % (method, q, bname)
                probes.append(t)
            if rng.random() < 0.6:
                sim.quiesce()
        sim.quiesce()
        sim.advance(PI + PT + 0.01)
        rec.count('history_probes', len(probes))
        for t in probes:
            if not t.done:
                sig = scen.hang_signature(sim, t)
                if sig == 'not-hung':
                    continue
                V(sig, '%s issued inside a history did not complete: %s' % (
                    getattr(t, 'desc', t.info), sig))
                continue
            if t.exc is not None:
                V('request-raises-%s' % type(t.exc).__name__
                  if t.kind == 'request' else
                  'api-raises-%s-%s' % (type(t.exc).__name__,
                                        t.info.get('call')),
                  '%s raised %r' % (getattr(t, 'desc', t.info), t.exc))
                continue
            if t.kind == 'request':
                if t.code not in (200, 400, 401, 405):
                    V('status-outside-set', '%s answered %r' % (
                        t.desc, t.status))
                if t.proto:
                    V('gateway-protocol', '%s: %r' % (t.desc, t.proto[:2]))
        judge_background(rec, sim, V)
        rec.key('hist/%s/%d/%s' % (srv, len(probes), ''.join(
            sorted(set(a[0][0] for a in R.log)))))
    finally:
        sim.teardown()


RACERS = ['close-post', 'send', 'poll', 'disconnect-sid', 'msg-post',
          'send2']


def _preempt_scenario(case, p):
    """One session, several requests / API calls naming it issued at the same
    virtual instant on the OS-thread backend; line-level pre-emption with
    probability p inside the server's functions (p=0: cooperative control
    run). -> (list of (who, exception type, raise site), counters)"""
    from vf import hist, preempt
    seed = case['sched']
    sim = scen.make_sim('T', server_kwargs={
        'ping_interval': 4, 'ping_timeout': 2}, policy='random', seed=seed,
        yield_prob=0.2, backend='thread')
    R = hist.Runner(sim)
    preempt.install(sim.sched, seed, p=p)
    out = []
    try:
        s = R.open('polling', autopoll=(case['state'] != 'nopoll'),
                   autopong=0)
        if case['state'] == 'closed':
            sim.post(s.h, '1')
        sim.advance(1)
        for r in case['racers']:
            if r == 'close-post':
                sim.post(s.h, '1')
            elif r == 'msg-post':
                sim.post(s.h, '4hello')
            elif r == 'poll':
                sim.poll(s.h)
            elif r in ('send', 'send2'):
                sim.app_call('send', s.sid, r)
            elif r == 'disconnect-sid':
                sim.app_call('disconnect', s.sid)
        sim.quiesce()
        ev, pre = preempt.uninstall()
        for tk in sim.tickets:
            if tk.exc is not None:
                tb = (getattr(tk, 'exc_tb', '') or '').strip().splitlines()
                site = ''
                for line in tb:
                    if 'engineio/' in line and ', in ' in line:
                        site = line.strip().split(', in ')[-1]
                out.append((tk.kind + ':' + str(tk.info.get(
                    'method', tk.info.get('call'))),
                    type(tk.exc).__name__, site))
            elif tk.kind == 'request' and tk.done and tk.proto:
                out.append(('request', 'gateway-protocol', tk.proto[0]))
        for n, e, tb in sim.sched.escaped:
            if not n.startswith('req-') and not n.startswith('app-'):
                out.append(('background:' + n, e, ''))
        return out, (ev, pre)
    finally:
        preempt.uninstall()
        sim.teardown()


def run_preempt(rec, case):
    """Pre-emptive tier (models async_mode='threading'): any exception that
    escapes a request or API call is a violation; if the very same scenario
    and schedule seed run WITHOUT line-level pre-emption shows none, it exists
    only between two source lines of the unsynchronised session-table /
    closed-flag code: known finding table-race-preemption."""
    rec.evaluations += 1
    rec.count('preempt_scenarios')
    rec.key('preempt/%s/%s' % (case['state'], '+'.join(case['racers'])))
    bad, (ev, pre) = _preempt_scenario(case, case.get('p', 0.3))
    rec.count('preempt_line_events', ev)
    rec.count('preemptions', pre)
    if not bad:
        return
    control, _ = _preempt_scenario(case, 0.0)
    rec.count('preempt_control_runs')
    for who, exc, site in bad:
        only_preempt = not any(c[1] == exc for c in control)
        key = 'table-race-preemption' if only_preempt and exc in (
            'KeyError', 'SocketIsClosedError') else \
            'preempt-raises-%s' % exc
        rec.viol(key, '%s raised %s (raise site: %s) with requests / calls '
                 '%r racing on one session (state %s); cooperative control '
                 'run of the same scenario and seed: %r' % (
                     who, exc, site, case['racers'], case['state'], control),
                 case)


def dispatch(rec, case):
    if case.get('preempt'):
        run_preempt(rec, case)
    elif 'api' in case:
        run_api(rec, case)
    elif 'odd' in case:
        run_odd(rec, case)
    elif 'competefail' in case:
        run_compete_fail(rec, case)
    elif 'slowdisc' in case:
        run_slowdisc(rec, case)
    elif 'compete' in case:
        run_compete(rec, case)
    elif 'i' in case:
        run_hist(rec, case)
    else:
        run_req(rec, case)


def plan(tier, seed):
    rng = gen.mkrng('c15', seed)
    dims = [len(METHODS), len(STATES), len(BODIES), len(TRANSP), len(JP),
            len(SRV)]
    allc = [list(c) for c in itertools.product(*[range(n) for n in dims])]
    # bodies only matter for POST/PUT: keep body 0 for the other methods
    allc = [c for c in allc if METHODS[c[0]] in ('POST', 'PUT') or c[2] == 0]
    if tier == 'thorough':
        chosen = allc
    else:
        chosen = rng.sample(allc, 2000)
    cases = [{'cell': c} for c in chosen]
    for call in API:
        for st in API_STATES:
            for srv in SRV:
                cases.append({'api': [call, st, srv]})
    for srv in SRV[:2]:
        for call in ('sid', 'all'):
            for when in ('before', 'during'):
                cases.append({'slowdisc': [srv, call, when]})
    for srv in SRV[:2] + ['W']:   # (W: the real simple_websocket driver)
        for b_when in ('before-probe', 'after-probe', 'probes-early',
                       'accept-delayed'):
            for b_act in ('wrong-first', 'close', 'probe-then-wrong',
                          'probe-then-close', 'probe-then-upgrade'):
                for a_end in ('client-close', 'disconnect', 'silence'):
                    cases.append({'compete': [srv, b_when, b_act, a_end]})
    for srv in SRV + ['W']:
        for a_probed in (0, 1):
            for a_how in ('wrong', 'close'):
                for b_probed in (0, 1):
                    for b_how in ('wrong', 'close'):
                        cases.append({'competefail': [srv, a_probed, a_how,
                                                      b_probed, b_how]})
    for iodd in range(len(ODD)):
        for im in range(len(METHODS)):
            for ist in (0, 1, 2, 3, 5):
                for isrv in (0, 1):
                    if tier == 'thorough' or rng.random() < 0.35:
                        cases.append({'odd': [iodd, im, ist, isrv]})
                if ODD[iodd] == 'client-gone-before-body' or \
                        tier == 'thorough' or rng.random() < 0.35:
                    cases.append({'odd': [iodd, im, ist, 2 + (im + ist + iodd) % 2]})
    for k in range(150000 if tier == 'thorough' else 600):
        cases.append({'seed': seed, 'i': k})
    rng.shuffle(cases)
    n = 16
    shards = [{'cases': cases[i::n], 'all': tier == 'thorough'}
              for i in range(n)]
    # pre-emptive tier (OS-thread backend, line-level pre-emption)
    pre = []
    for k in range(8000 if tier == 'thorough' else 1600):
        racers = rng.sample(RACERS, rng.randint(2, 4))
        pre.append({'preempt': True, 'sched': seed * 100000 + k + 1,
                    'state': rng.choice(['poll', 'poll', 'nopoll', 'closed']),
                    'racers': racers})
    k = 8 if tier == 'thorough' else 8
    for i in range(k):
        shards.append({'cases': pre[i::k]})
    return shards


def run_shard(spec):
    rec = Rec()
    scen.run_cases(rec, spec['cases'], dispatch)
    if spec.get('all'):
        rec.extra['exhaustive'] = True
    return rec.result()


replay = scen.simple_replay(dispatch)

"""C05 - session events: connect first, exactly one disconnect with the true
reason, nothing afterwards; handler exceptions contained.

Monitor: an event automaton per session id fed by the application handler log
(recorded at the boundary), plus an end-cause ledger kept by the scenario
driver: every action that can end a session is logged with its clocks and the
reason it stands for; the reason of the disconnect event must be that of a
cause that had begun, and silence-caused ends may not come before the
heartbeat deadline.
"""
from vf import gen, hist, scen
from vf.rec import Rec

PROPERTY = 'C05'
LEVEL = 'fault_enumeration'
RULE = ('(a) seeded histories of opens (accepted / rejected by every handler '
        'outcome), polls, posts, frames, application disconnect(sid) / '
        'disconnect(), CLOSE packets, protocol errors, WebSocket close / write failure / '
        'vanish, clients going silent, time advances across heartbeat '
        'deadlines, handler exceptions injected at seeded event indices; every '
        'history ends with all clients silent and virtual time run past every '
        'timeout, then requests and frames naming the dead ids; (b) '
        'systematic PAIRS of end causes issued at the same virtual instant in '
        'both orders on every transport mode (fault enumeration: 6 causes x 6 '
        'causes x 3 modes x 2 servers, threaded side under several '
        'schedules, plus stateless DFS over ALL cooperative schedules of each '
        'pair up to a leaf bound, evidence says how many trees were exhausted); '
        '(c) the same pairs on the OS-thread backend with seeded '
        'line-level pre-emption inside close/poll/send/receive/disconnect '
        '(models async_mode=threading); (d) shutdown() with sessions before / '
        'during / after it and suspending handlers; (e) websocket opens '
        'accepted by the handler whose driver handshake then fails; half of '
        'the asyncio histories run behind the real aiohttp adapter (engine '
        'simH). distinct = distinct (server, mode, cause-set, winning '
        'reason) signatures')
ASSUMPTIONS = ['handlers take (sid, reason), or - in a seeded share of the '
               'histories - the legacy (sid) form, whose reason is unobservable '
               'and not judged; injected handler failures are raised AFTER the '
               'event was logged, so a re-run of a handler body would show as '
               'a duplicate event',
               'injected handler failures are Exception subclasses or, in a '
               'seeded share, BaseException-only (what eventlet/gevent '
               'Timeout and GreenletExit are); handlers may block / await for '
               'a while after they were entered',
               'a protocol error in a POST may end the session with either '
               '"server disconnect" or "transport error" (the statement names '
               'no constant)',
               'pre-emptive interleavings inside Socket.close() are explored '
               'only by the thorough tier (thread backend, line-level '
               'pre-emption)']
REQUIRED = ['automaton', 'reason_ledger', 'exactly_one_disconnect',
            'after_end_probes', 'cause_pairs', 'handler_exception_contained',
            'preempt_pairs', 'preemptions', 'dfs_leaves', 'ws_write_failures']
SHARD_TIMEOUT = {'quick': 500, 'thorough': 3400}

TIMEOUT_REASONS = {'ping timeout', 'transport close', 'transport error'}
REASONS = {
    'client disconnect': {'client disconnect'},
    'server disconnect': {'server disconnect'},
    'transport close': {'transport close'},
    'transport failure': {'transport close', 'transport error'},
    'silence': TIMEOUT_REASONS,
    'protocol error': {'server disconnect', 'transport error'},
}


def automaton(rec, sim, R, V, final=True, pi=25, pt=20):
    rec.count('automaton')
    by = {}
    for e in sim.events:
        by.setdefault(e['sid'], []).append(e)
    for sid, evs in by.items():
        nconn = [e for e in evs if e['ev'] == 'connect']
        # known finding K8: a disconnect() of all clients that overlaps an
        # open request closes the half-open session
        during = False
        if nconn and nconn[0]['idx'] < len(R.S):
            ot = R.S[nconn[0]['idx']].h.open_ticket
            during = any(c['s'] == '*' and c['c_start'] < (ot.c_end or 1e18)
                         and (c['ticket'].c_end or 1e18) > ot.c_start
                         for c in R.causes)
        if evs[0]['ev'] != 'connect':
            V('disconnect-all-during-connect' if during else
              'first-event-not-connect', 'sid %s: first event is %s' % (
                  sim.sidn(sid), evs[0]['ev']))
        if len(nconn) > 1:
            V('connect-twice', 'sid %s: %d connect events' % (
                sim.sidn(sid), len(nconn)))
        idx = nconn[0]['idx'] if nconn else None
        outcome = sim.connect_script[idx] if idx is not None and \
            idx < len(sim.connect_script) else None
        accepted = outcome is None or outcome is True
        dis = [e for e in evs if e['ev'] == 'disconnect']
        if not accepted:
            if len(evs) > 1:
                V('disconnect-all-during-connect' if during and all(
                    e['ev'] != 'message' for e in evs) else
                  'event-after-rejected-connect', 'sid %s rejected (%r) but '
                  'later events %r' % (sim.sidn(sid), outcome,
                                       [e['ev'] for e in evs[1:]]))
            continue
        if len(dis) > 1:
            V('disconnect-twice', 'sid %s: disconnect events with reasons %r'
              % (sim.sidn(sid), [d['reason'] for d in dis]))
        if dis:
            # only requests / frames RECEIVED after the disconnect event
            # count: a request already in flight may still be dispatched
            def issued_after(e):
                d = e.get('data')
                if isinstance(d, (bytes, bytearray)):
                    d = bytes(d).decode('ascii', 'replace')
                if isinstance(d, dict):
                    d = d.get('id')
                if not isinstance(d, str):
                    return False
                if d.startswith('late'):
                    return True
                c = R.up_issue.get(d.split('|')[0])
                return c is not None and c > dis[0]['clk']
            after = [e for e in evs if e['clk'] > dis[0]['clk'] and
                     e['ev'] != 'disconnect' and
                     (e['ev'] != 'message' or issued_after(e))]
            if after and during and all(e['ev'] == 'connect' for e in after):
                V('disconnect-all-during-connect', 'sid %s: connect event '
                  'after its disconnect event' % sim.sidn(sid))
            elif after:
                via = 'ws-frame' if any(
                    s.sid == sid and (s.ws is not None or s.opened_ws)
                    for s in R.S) else 'request'
                V('event-after-disconnect-' + via, 'sid %s: %s event(s) after '
                  'the disconnect event: %r' % (
                      sim.sidn(sid), len(after),
                      [(e['ev'], e.get('data')) for e in after][:3]))
        if final:
            rec.count('exactly_one_disconnect')
            if len(dis) == 0:
                V('no-disconnect', 'accepted sid %s never got a disconnect '
                  'event although every client went silent and time ran past '
                  'all timeouts (table: %r)' % (
                      sim.sidn(sid), [sim.sidn(x) for x in sim.table_sids()]))
    # reasons
    for s in R.S:
        if not s.accepted:
            continue
        dis = R.disconnects(s)
        if not dis:
            continue
        d = dis[0]
        if d['reason'] == '?legacy':
            # the legacy (sid)-only handler cannot see the reason; judge the
            # one the server handed to the dispatcher (noted at that boundary)
            rec.count('legacy_handler_ends')
            d = dict(d, reason=d.get('true_reason', '?legacy'))
            if d['reason'] == '?legacy':
                continue
        rec.count('reason_ledger')
        cands = [c for c in R.causes if c['s'] in (s.n, '*') and
                 c['c_start'] < d['clk']]
        allowed = set()
        for c in cands:
            # (how long after the silence began a timeout may fire is C07's
            # subject; here the cause only has to have begun)
            allowed |= REASONS[c['cause']]
        # known finding K7: the long-poll left pending by an eager upgrade
        # competes with the websocket writer for packets and for the None
        # sentinel, which starves one of them or delays the writer's exit
        stale = sim.kind == 'T' and s.eager_with_pending_poll and \
            d['reason'] in TIMEOUT_REASONS
        if stale and (not cands or d['reason'] not in allowed):
            V('stale-poll-after-upgrade', 'session %d (upgraded while a '
              'long-poll was still pending, client sent UPGRADE without '
              'waiting for it) ended with %r at t=%.3f; causes that had '
              'begun: %r' % (s.n, d['reason'], d['t'],
                             [(c['cause'], c['t']) for c in cands]))
        elif not cands:
            V('disconnect-without-cause', 'session %d ended with %r at t=%.3f '
              'but nothing had ended it' % (s.n, d['reason'], d['t']))
        elif d['reason'] not in allowed:
            V('wrong-reason-' + '+'.join(sorted({c['cause'] for c in cands}))
              .replace(' ', '_'),
              'session %d ended with reason %r; causes that had begun: %r' % (
                  s.n, d['reason'], [(c['cause'], c['t']) for c in cands]))


def final_phase(rec, sim, R, V, pi, pt):
    """All clients silent, time past every timeout, then probes."""
    for s in R.S:
        if s.accepted and not R.ended(s) and not s.gone:
            R.vanish(s)
    sim.quiesce()
    sim.advance(pi + 3 * pt + pi + pt + 1)
    sim.advance(pi + pt)
    n0 = len(sim.events)
    rec.count('after_end_probes')
    for s in R.S:
        if not s.accepted:
            continue
        sim.poll(s.h)
        sim.post(s.h, '4late')
        if s.ws is not None:
            s.ws.send('4late-frame')
        ws, t = sim.upgrade_ws(s.h)
        ws.send('2probe')
        sim.app_call('send', s.sid, 'late-send')
    sim.quiesce()
    return n0


def contained(rec, sim, R, V, boom):
    """Handler exceptions must not leak or break anything."""
    if not boom:
        return
    rec.count('handler_exception_contained')
    esc = scen.escaped(sim)
    if esc:
        V('handler-exception-escaped', 'exception escaped a background task: '
          '%r' % (esc[:2],))
    for tk in sim.tickets:
        if tk.exc is not None and 'HandlerBoom' in repr(tk.exc):
            V('handler-exception-escaped', 'handler exception escaped from %s'
              % tk.kind)
    # cleanup not skipped: at the end of the history (every client silent,
    # time past every timeout, monitoring on) nothing is left in the table
    # and every accepted session got its disconnect event
    if getattr(sim, 'nboom', 0):
        rec.count('cleanup_after_handler_exception')
        left = sim.table_sids()
        if left:
            V('cleanup-skipped-after-handler-exception', 'a handler raised '
              'during the history and at its end the table still holds %r '
              '(states %r)' % ([sim.sidn(x) for x in left], {
                  sim.sidn(k): (v['closing'], v['closed'])
                  for k, v in sim.snapshot().items()}))


def run_history(rec, case):
    rng = gen.mkrng('c05', case['seed'], case['i'])
    srv = rng.choice(['T', 'A'])
    if srv == 'A' and case.get('aio'):
        srv = case['aio']    # asyncio server behind the aiohttp / tornado adapter
        rec.count('histories_on_aiohttp_adapter')
    pi, pt = rng.choice([(25, 20), (5, 3), (1, 1), (2, 0.5)])
    rec.evaluations += 1
    boom = {}
    hcfg = {}
    if rng.random() < 0.35:
        for _ in range(rng.randint(1, 3)):
            boom['%s:%d' % (rng.choice(['message', 'disconnect']),
                            rng.randint(0, 8))] = True
        if rng.random() < 0.2:
            boom['disconnect:*'] = True
        hcfg['boom_base'] = rng.random() < 0.4
        if not hcfg['boom_base'] and rng.random() < 0.4:
            hcfg['boom_type'] = 'typeerror'
    hcfg['legacy_disconnect'] = rng.random() < 0.2
    if rng.random() < 0.25:
        hcfg['suspend'] = {rng.choice(['message', 'disconnect']):
                           rng.choice([0.001, 0.25, 1.0])}
    script = [rng.choice([None, None, None, True, False, 'no', 'raise', 0,
                          'raise-type'])
              for _ in range(8)]
    # some applications handle messages synchronously and slowly: frames a
    # client sends in a burst pile up in front of the handler (in the driver,
    # in the framework's buffers) - and the client may be gone before they
    # are worked off
    bursty = rng.random() < 0.2
    skw = {'ping_interval': pi, 'ping_timeout': pt}
    if bursty:
        skw['async_handlers'] = False
        hcfg['suspend'] = {'message': rng.choice([0.05, 0.25])}
        rec.count('histories_with_slow_synchronous_handlers')
    sim = scen.make_sim(srv, real_ws_driver=bool(case.get('tws')),
                        server_kwargs=skw,
                        handler_cfg=dict(hcfg, connect=script, boom=boom),
                        policy='random', seed=rng.randrange(1 << 30),
                        yield_prob=rng.choice([0.0, 0.3]),
                        ws_close_mode=rng.choice(['none', 'raise']),
                        ws_read_timeout=rng.random() < 0.3,
                        async_handlers_coro=rng.random() < 0.7)
    R = hist.Runner(sim)

    def V(key, msg):
        if key.startswith('wrong-reason') and "'ping timeout'" in msg and \
                getattr(sim, 'lost_wakeup_conns', None) and \
                sim.lost_wakeup_conns():
            # mechanism of known finding K15 (decided on the driver's own
            # state, see SimW.lost_wakeup_conns): the real simple_websocket
            # driver never told the server that the connection had ended
            key = 'simple-websocket-lost-wakeup'
            msg += ' [handler threads still blocked in receive() on ' \
                'connections the driver has closed: %d]' % len(
                    sim.lost_wakeup_conns())
        rec.viol(key, msg + ' | server=%s%s pi=%s pt=%s boom=%r handlers=%r '
                 'history=%s' % (srv, ' (real simple_websocket driver)'
                                 if case.get('tws') and srv == 'T' else '',
                                 pi, pt, sorted(boom), hcfg,
                                 R.witness(50)), case)
    try:
        causes_used = set()
        for _ in range(rng.randint(1, 3)):
            m = rng.choice(['polling', 'polling-silent', 'websocket',
                            'upgrade'])
            s = R.open('websocket' if m == 'websocket' else 'polling',
                       autopoll=(m in ('polling', 'upgrade')),
                       autopong=None if m == 'polling-silent' else
                       rng.choice([0, 0, pt / 2.0]))
            s.plan = m
            if s.accepted and m == 'polling-silent':
                R.causes.append({'s': s.n, 'cause': 'silence',
                                 'c_start': s.h.open_ticket.c_start,
                                 't': sim.now})
            if s.accepted and m == 'upgrade':
                R.upgrade_start(s, 'eager' if rng.random() < 0.25
                                else 'correct')
                sim.quiesce()
        for _ in range(rng.randint(3, 18)):
            live = [s for s in R.S if s.accepted]
            if not live:
                break
            s = rng.choice(live)
            k = rng.random()
            if bursty and s.mode == 'websocket' and s.ws is not None and \
                    not getattr(s, 'gone', False) and k < 0.5:
                # a burst of frames, then the connection is closed / lost
                # while most of them are still waiting for the handler
                nb = rng.choice([3, 17, 24])
                for _ in range(nb):
                    uid, data, wire = R.up_payload(s, 'text')
                    R.ws_send(s, wire)
                causes_used.add('wsclose')
                R.ws_close(s, 'close')
                if (nb + 3) * hcfg['suspend']['message'] >= pt / 2.0:
                    # the Close sits behind a backlog the application takes
                    # that long to work off, and the client answers no PING
                    # any more: a ping timeout may truly come first. (A
                    # PING older than ping_timeout / 2 was answered, so no
                    # deadline can fall inside a shorter backlog.)
                    R.causes.append({'s': s.n, 'cause': 'silence',
                                     'c_start': sim.tick(), 't': sim.now})
                rec.count('frame_bursts_then_close')
                sim.quiesce()
                continue
            if k < 0.2:
                R.send(s, ('text', 'json', 'binary', 'text')[len(R.sends) % 4])
            elif k < 0.4:
                uid, data, wire = R.up_payload(s, 'text')
                if s.mode == 'websocket' and s.ws is not None:
                    R.ws_send(s, wire)
                else:
                    R.post_raw(s, wire)
            elif k < 0.47:
                causes_used.add('close')
                if s.mode == 'websocket' and s.ws is not None:
                    R.ws_send(s, '1', cause='client disconnect')
                else:
                    R.post_raw(s, '1', cause='client disconnect')
            elif k < 0.54:
                causes_used.add('disc')
                R.disconnect(s)
            elif k < 0.57:
                causes_used.add('discall')
                R.disconnect(None)
            elif k < 0.63 and s.mode == 'websocket':
                causes_used.add('wsclose')
                R.ws_close(s, rng.choice(['close', 'close', 'vanish']))
                if R.log[-1][0] == 'ws_vanish':
                    R.causes[-1]['cause'] = 'silence'
            elif k < 0.655 and s.mode == 'websocket':
                causes_used.add('wsbreak')
                if R.ws_break(s):
                    rec.count('ws_write_failures')
            elif k < 0.668 and s.mode == 'websocket' and s.ws is not None \
                    and not getattr(s, 'gone', False):
                # a connection RESET: the server's next write fails (and so
                # does whatever it tries on the connection after that), then
                # its reader learns that the peer is gone - the session ends
                # there and then, with a transport reason
                causes_used.add('wsreset')
                rec.count('ws_connection_resets')
                s.ws.send_fails = True
                s.autopong = None
                R.causes.append({'s': s.n, 'cause': 'transport failure',
                                 'c_start': sim.tick(), 'ws': s.ws,
                                 't': sim.now})
                R.send(s, 'text')
                sim.quiesce()
                R.ws_close(s, 'close')
                sim.quiesce()
            elif k < 0.68:
                causes_used.add('vanish')
                R.vanish(s)
            elif k < 0.73 and s.mode == 'polling':
                causes_used.add('proto')
                R.post_raw(s, rng.choice(['9', '4a' + gen.SEP + '7x', '0']),
                           cause='protocol error')
            elif k < 0.8:
                ns = R.open(rng.choice(['polling', 'websocket']),
                            autopoll=True, autopong=0)
                ns.plan = 'late'
            elif k < 0.97:
                R.advance(rng.choice([0.5, 1, pi, pt, pi + pt, pi / 2.0]))
            if rng.random() < 0.6:
                sim.quiesce()
            elif srv == 'A':
                sim.step(rng.randint(1, 5))
        sim.quiesce()
        n0 = final_phase(rec, sim, R, V, pi, pt)
        automaton(rec, sim, R, V, True, pi, pt)
        contained(rec, sim, R, V, boom)
        # message-handler exception: the session keeps working (checked when
        # a message handler blew up and the session was still alive after it)
        for s in R.S:
            d = R.disconnects(s)
            rec.key('%s/%s/%s/%s' % (srv, getattr(s, 'plan', '?'), '+'.join(
                sorted({c['cause'] for c in R.causes if c['s'] == s.n})),
                d[0]['reason'] if d else '-'))
        if rec.evaluations % 211 == 1:
            rec.sample({'server': srv, 'pi': pi, 'pt': pt,
                        'history': R.witness(25),
                        'events': [(sim.sidn(e['sid']), e['ev'],
                                    e.get('reason')) for e in sim.events][:30]})
    finally:
        sim.teardown()


CAUSES = ['close-packet', 'app-disconnect', 'ws-close', 'timeout',
          'protocol-error', 'disconnect-all']


def apply_cause(R, s, cause, pi, pt):
    if cause == 'close-packet':
        if s.mode == 'websocket':
            R.ws_send(s, '1', cause='client disconnect')
        else:
            R.post_raw(s, '1', cause='client disconnect')
    elif cause == 'app-disconnect':
        R.disconnect(s)
    elif cause == 'disconnect-all':
        R.disconnect(None)
    elif cause == 'ws-close':
        if s.mode != 'websocket':
            return False
        R.ws_close(s, 'close')
    elif cause == 'protocol-error':
        if s.mode != 'polling':
            return False
        R.post_raw(s, '8x', cause='protocol error')
    elif cause == 'timeout':
        pass    # silent from its open; the deadline falls at this instant
    return True


def run_pair(rec, case):
    srv, mode, c1, c2, seed = (case['srv'], case['mode'], case['c1'],
                               case['c2'], case['sched'])
    pi, pt = 4, 2
    rec.evaluations += 1
    sim = scen.make_sim(srv, server_kwargs={'ping_interval': pi,
                                            'ping_timeout': pt},
                        policy='random' if seed else 'fifo', seed=seed,
                        yield_prob=0.3 if seed else 0.0)
    R = hist.Runner(sim)

    def V(key, msg):
        rec.viol(key, msg + ' | PAIR server=%s mode=%s causes=(%s,%s) gap=%d '
                 'schedule-seed=%d history=%s' % (
                     srv, mode, c1, c2, case.get('gap', 0), seed,
                     R.witness(20)), case)
    try:
        s = R.open('websocket' if mode == 'websocket' else 'polling',
                   autopoll=True, autopong=None if 'timeout' in (c1, c2)
                   else 0)
        if 'timeout' in (c1, c2):
            R.causes.append({'s': s.n, 'cause': 'silence',
                             'c_start': s.h.open_ticket.c_start, 't': 0.0})
        other = R.open('polling', autopoll=True, autopong=0)
        if mode == 'upgraded':
            R.upgrade_start(s, 'correct')
            sim.quiesce()
        if 'timeout' in (c1, c2):
            # run to the instant at which the sweep / deadline can fire:
            # PING at pi, deadline pi+pt; stop just past it
            sim.advance(pi + pt + 0.001)
        else:
            sim.advance(1)
        rec.count('cause_pairs')
        ok1 = apply_cause(R, s, c1, pi, pt)
        # the second cause starts `gap` scheduling steps / loop iterations
        # after the first (0 = same instant, before anything ran)
        sim.step(case.get('gap', 0))
        ok2 = apply_cause(R, s, c2, pi, pt)
        if not (ok1 and ok2):
            return
        sim.quiesce()
        final_phase(rec, sim, R, V, pi, pt)
        automaton(rec, sim, R, V, True, pi, pt)
        d = R.disconnects(s)
        rec.key('pair/%s/%s/%s/%s/%s' % (srv, mode, c1, c2,
                                         d[0]['reason'] if d else '-'))
    finally:
        sim.teardown()


def run_pair_dfs(rec, case):
    """All cooperative schedules (bounded number of leaves; optionally with a
    bounded number of yields at signalling operations) of one pair of end
    causes issued at the same instant on the threaded server."""
    mode, c1, c2 = case['mode'], case['c1'], case['c2']
    pi, pt = 4, 2
    outcomes = set()

    def leaf(prefix):
        sim = scen.make_sim('T', server_kwargs={'ping_interval': pi,
                                                'ping_timeout': pt},
                            policy='fifo', prefix=prefix,
                            yield_prob=1.0 if case.get('yields') else 0.0)
        sim.sched.yield_budget = case.get('yields') or 0
        R = hist.Runner(sim)

        def V(key, msg):
            rec.viol(key, msg + ' | PAIR-DFS mode=%s causes=(%s,%s) yields<=%s'
                     ' schedule prefix=%r history=%s' % (
                         mode, c1, c2, case.get('yields', 0), prefix,
                         R.witness(20)), dict(case, prefix=list(prefix)))
        try:
            s = R.open('websocket' if mode == 'websocket' else 'polling',
                       autopoll=True, autopong=None if 'timeout' in (c1, c2)
                       else 0)
            if 'timeout' in (c1, c2):
                R.causes.append({'s': s.n, 'cause': 'silence',
                                 'c_start': s.h.open_ticket.c_start,
                                 't': 0.0})
            if mode == 'upgraded':
                R.upgrade_start(s, 'correct')
                sim.quiesce()
            sim.advance(pi + pt + 0.001 if 'timeout' in (c1, c2) else 1)
            n0 = len(sim.sched.trace)
            ok1 = apply_cause(R, s, c1, pi, pt)
            ok2 = apply_cause(R, s, c2, pi, pt)
            if ok1 and ok2:
                sim.quiesce()
                # the enumeration covers the racing part; the tail (silence,
                # probes of the dead id) follows the same forced prefix and
                # then the canonical order
                final_phase(rec, sim, R, V, pi, pt)
                automaton(rec, sim, R, V, True, pi, pt)
                d = R.disconnects(s)
                outcomes.add(d[0]['reason'] if d else '-')
            rec.evaluations += 1
            return list(sim.sched.trace)
        finally:
            sim.teardown()
    leaves, done = scen.dfs_schedules(leaf, case['limit'])
    rec.count('dfs_leaves', leaves)
    rec.count('dfs_trees')
    if done:
        rec.count('dfs_trees_exhausted')
    rec.key('dfs/%s/%s/%s/%s' % (mode, c1, c2, '|'.join(sorted(outcomes))))


def run_pair_preempt(rec, case):
    """The pair scenario on the OS-thread backend with line-level
    pre-emption inside the functions named in vf/preempt.py (models
    async_mode='threading')."""
    from vf import preempt
    import engineio.socket as esocket
    mode, c1, c2, seed = case['mode'], case['c1'], case['c2'], case['sched']
    pi, pt = 4, 2
    rec.evaluations += 1
    sim = scen.make_sim('T', server_kwargs={'ping_interval': pi,
                                            'ping_timeout': pt},
                        policy='random', seed=seed, yield_prob=0.2,
                        backend='thread')
    R = hist.Runner(sim)
    calls = []
    orig_close = esocket.Socket.close

    def spy_close(self, *a, **k):
        ent = {'sid': self.sid, 'enter': sim.tick(),
               'guard_open': not self.closed and not self.closing}
        calls.append(ent)
        try:
            return orig_close(self, *a, **k)
        finally:
            ent['exit'] = sim.tick()
    # instrument the real functions first: the spy is harness code and must
    # not become a pre-emption point
    preempt.install(sim.sched, seed, p=case.get('p', 0.2))
    esocket.Socket.close = spy_close

    def V(key, msg):
        rec.viol(key, msg + ' | PREEMPT mode=%s causes=(%s,%s) seed=%d '
                 'history=%s' % (mode, c1, c2, seed, R.witness(20)), case)
    try:
        s = R.open('websocket' if mode == 'websocket' else 'polling',
                   autopoll=True, autopong=None if 'timeout' in (c1, c2)
                   else 0)
        if 'timeout' in (c1, c2):
            R.causes.append({'s': s.n, 'cause': 'silence',
                             'c_start': s.h.open_ticket.c_start, 't': 0.0})
        if mode == 'upgraded':
            R.upgrade_start(s, 'correct')
            sim.quiesce()
        if 'timeout' in (c1, c2):
            sim.advance(pi + pt + 0.001)
        else:
            sim.advance(1)
        rec.count('preempt_pairs')
        ok1 = apply_cause(R, s, c1, pi, pt)
        ok2 = apply_cause(R, s, c2, pi, pt)
        if not (ok1 and ok2):
            return
        sim.quiesce()
        ev, pre = preempt.uninstall()
        rec.count('preempt_line_events', ev)
        rec.count('preemptions', pre)
        final_phase(rec, sim, R, lambda k, m: None, pi, pt)
        d = R.disconnects(s)
        mine = [c for c in calls if c['sid'] == s.sid and c['guard_open']]
        if len(d) > 1:
            # two callers found the guard open: they were inside the
            # check-then-set window of Socket.close() at the same time
            overlapping = len(mine) > 1
            V('close-guard-preemption' if overlapping else 'disconnect-twice',
              'session got %d disconnect events (%r); %d close() calls found '
              'the closing/closed guard open' % (
                  len(d), [x['reason'] for x in d], len(mine)))
        elif len(d) == 0:
            V('no-disconnect', 'no disconnect event under pre-emption')
        rec.key('preempt/%s/%s/%s/%d' % (mode, c1, c2, len(d)))
    finally:
        preempt.uninstall()
        esocket.Socket.close = orig_close
        sim.teardown()


def run_shutdown(rec, case):
    """server.shutdown() called by the application while sessions exist and
    while new clients keep connecting (disconnect handlers that block / await
    for a while in a share of the cases). Whatever shutdown does with the
    sessions, the session-event contract is unchanged: an accepted session
    either got exactly one disconnect event or is still a working session;
    afterwards a client CLOSE ends each survivor with one event."""
    srv, modes, dt, late = case['srv'], case['modes'], case['suspend'], \
        case['late']
    rec.evaluations += 1
    rec.count('shutdown_scenarios')
    rec.key('shutdown/%s/%s/%s/%s' % (srv, ','.join(modes), dt, late))
    hcfg = {'suspend': {'disconnect': dt}} if dt else {}
    sim = scen.make_sim(srv, server_kwargs={'ping_interval': 25,
                                            'ping_timeout': 20},
                        handler_cfg=hcfg, async_handlers_coro=True)
    R = hist.Runner(sim)

    def V(key, msg):
        rec.viol(key, msg + ' | SHUTDOWN server=%s sessions=%r disconnect '
                 'handler suspends %r, %d opens during / after shutdown' % (
                     srv, modes, dt, late), case)
    try:
        for m in modes:
            R.open(m, autopoll=True, autopong=0)
        sim.quiesce()
        tk = sim.app_call('shutdown')
        for k in range(late):
            R.open(modes[k % len(modes)] if modes else 'polling',
                   autopoll=True, autopong=0)
            sim.advance(0.125)
        sim.advance(3)
        sim.quiesce()
        if not tk.done:
            V('shutdown-hangs', 'shutdown() did not return within 3 s of '
              'virtual time: %s' % scen.hang_signature(sim, tk))
            return
        if tk.exc is not None:
            V('shutdown-raises-%s' % type(tk.exc).__name__,
              'shutdown() raised %r' % (tk.exc,))
        for st in R.S:
            if not st.accepted:
                continue
            dis = R.disconnects(st)
            rec.count('exactly_one_disconnect')
            if len(dis) > 1:
                V('disconnect-twice', 'session %d: %d disconnect events' % (
                    st.n, len(dis)))
            if dis:
                continue
            # no disconnect event: it must still be a working session
            uid, data, wire = R.up_payload(st, 'text')
            n0 = len(sim.events)
            if st.mode == 'websocket' and st.ws is not None:
                st.ws.send(wire)
                sim.quiesce()
                ok = True
            else:
                t = R.post_raw(st, wire)
                sim.quiesce()
                ok = t.done and t.code == 200
            got = [e for e in sim.events[n0:] if e['ev'] == 'message' and
                   e['sid'] == st.sid]
            if not ok or len(got) != 1:
                V('session-gone-without-disconnect-event', 'session %d '
                  '(accepted, opened %s shutdown()) never got a disconnect '
                  'event but is no longer a working session: message %s, %d '
                  'message events; table %r' % (
                      st.n, 'before' if st.n < len(modes) else 'during/after',
                      'accepted' if ok else 'refused', len(got),
                      [sim.sidn(x) for x in sim.table_sids()]))
                continue
            # the client says goodbye
            if st.mode == 'websocket' and st.ws is not None:
                R.ws_send(st, '1', cause='client disconnect')
            else:
                R.post_raw(st, '1', cause='client disconnect')
            sim.quiesce()
            sim.advance(max(dt or 0, 0) + 0.5)
            dis = R.disconnects(st)
            if len(dis) != 1:
                V('no-disconnect' if not dis else 'disconnect-twice',
                  'session %d: %d disconnect events after its client sent '
                  'CLOSE (after a shutdown())' % (st.n, len(dis)))
        automaton(rec, sim, R, V, final=False)
    finally:
        sim.teardown()


def run_accept_fails(rec, case):
    """A connection opened directly on WebSocket whose connect handler
    accepts, but whose client is gone by the time the driver completes the
    handshake (the driver raises): the accepted session still gets exactly
    one disconnect event within the heartbeat bound, and leaves the table."""
    srv, dt = case['srv'], case['suspend']
    pi, pt = 5, 3
    rec.evaluations += 1
    rec.count('accept_failures')
    rec.key('acceptfail/%s/%s' % (srv, dt))
    sim = scen.make_sim(srv, server_kwargs={'ping_interval': pi,
                                            'ping_timeout': pt},
                        handler_cfg={'suspend': {'connect': dt}} if dt
                        else {}, async_handlers_coro=True)

    def V(key, msg):
        rec.viol(key, msg + ' | WEBSOCKET OPEN, CLIENT GONE AT THE HANDSHAKE '
                 'server=%s connect handler suspends %r' % (srv, dt), case)
    try:
        ws = sim.new_ws()
        ws.accept_fails = True
        t = sim.request('GET', {'transport': 'websocket', 'EIO': '4'},
                        {'Upgrade': 'websocket', 'Connection': 'Upgrade'},
                        ws=ws)
        sim.quiesce()
        sim.advance((dt or 0) + 0.5)
        con = [e for e in sim.events if e['ev'] == 'connect']
        if len(con) != 1:
            return      # refused before the handler: nothing to end
        sim.advance(pi + 3 * pt + pi + pt + 1)
        sim.quiesce()
        rec.count('exactly_one_disconnect')
        dis = [e for e in sim.events if e['ev'] == 'disconnect']
        if len(dis) != 1:
            V('no-disconnect' if not dis else 'disconnect-twice',
              'the connect handler accepted the session, the driver then '
              'failed the handshake; %d disconnect events after %s s (table '
              '%r)' % (len(dis), pi + 3 * pt + pi + pt + 1,
                       [sim.sidn(x) for x in sim.table_sids()]))
        elif sim.table_sids():
            V('session-left-in-table', 'table %r after the disconnect event'
              % (sim.table_sids(),))
    finally:
        sim.teardown()


def dispatch(rec, case):
    if case.get('acceptfail'):
        return run_accept_fails(rec, case)
    if case.get('shutdown'):
        return run_shutdown(rec, case)
    if case.get('dfs'):
        run_pair_dfs(rec, case)
    elif case.get('preempt'):
        run_pair_preempt(rec, case)
    elif case.get('pair'):
        run_pair(rec, case)
    else:
        run_history(rec, case)


def plan(tier, seed):
    n = 16
    per = 15000 if tier == 'thorough' else 500
    shards = [{'seed': seed, 'shard': s, 'n': per} for s in range(n)]
    pairs = []
    scheds = [0, 1, 2, 3] if tier == 'quick' else list(range(0, 40))
    for srv in 'TA':
        for mode in ('polling', 'websocket', 'upgraded'):
            for c1 in CAUSES:
                for c2 in CAUSES:
                    for sc in (scheds if srv == 'T' else [0]):
                        for gap in ((0, 1, 2, 3, 5) if (srv == 'A' or sc == 0)
                                    else (0,)):
                            pairs.append({'pair': True, 'srv': srv,
                                          'mode': mode, 'c1': c1, 'c2': c2,
                                          'gap': gap, 'sched': sc + (
                                              seed * 1000 if sc else 0)})
    for i in range(4):
        shards.append({'pairs': pairs[i::4]})
    # stateless DFS over the cooperative schedules of every cause pair
    dfs = []
    for mode in ('polling', 'websocket', 'upgraded'):
        for c1 in CAUSES:
            for c2 in CAUSES:
                dfs.append({'dfs': True, 'mode': mode, 'c1': c1, 'c2': c2,
                            'limit': 2500 if tier == 'thorough' else 25})
                if tier == 'thorough':
                    dfs.append({'dfs': True, 'mode': mode, 'c1': c1, 'c2': c2,
                                'yields': 1, 'limit': 2500})
    kd = 8 if tier == 'thorough' else 2
    for i in range(kd):
        shards.append({'pairs': dfs[i::kd]})
    # pre-emptive tier (OS-thread backend, line-level pre-emption)
    pre = []
    pseeds = range(1, 4) if tier == 'quick' else range(1, 80)
    for mode in ('polling', 'websocket', 'upgraded'):
        for c1 in CAUSES:
            for c2 in CAUSES:
                for sd in pseeds:
                    pre.append({'preempt': True, 'mode': mode, 'c1': c1,
                                'c2': c2, 'sched': seed * 10000 + sd})
    k = 2 if tier == 'quick' else 8
    for i in range(k):
        shards.append({'pairs': pre[i::k]})
    sd = []
    for srv in 'TA':
        for modes in (['polling'], ['websocket'], ['polling', 'websocket'],
                      ['polling', 'polling', 'websocket'], []):
            for dt in (None, 0.25, 1.0):
                for late in (0, 1, 3):
                    sd.append({'shutdown': True, 'srv': srv, 'modes': modes,
                               'suspend': dt, 'late': late})
    for srv in 'TA':
        for dt in (None, 0.25):
            sd.append({'acceptfail': True, 'srv': srv, 'suspend': dt})
    shards.append({'pairs': sd})
    return shards


def run_shard(spec):
    rec = Rec()
    if 'pairs' in spec:
        scen.run_cases(rec, spec['pairs'], dispatch)
    else:
        cases = [{'seed': spec['seed'], 'i': spec['shard'] * 1000000 + k}
                 for k in range(spec['n'])]
        for c in cases[::2]:
            c['aio'] = 'H'
        for c in cases[2::4]:
            c['aio'] = 'N'     # ... and behind the tornado adapter
        for c in cases[1::3]:
            c['tws'] = True    # threaded server: the real simple_websocket driver
        scen.run_cases(rec, cases, dispatch)
    return rec.result()


replay = scen.simple_replay(dispatch)

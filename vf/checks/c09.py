"""C09 - client protocol conduct: PONG echo, ordered exactly-once I/O, probe
upgrade, URL construction, silence detection.

Monitor: a conversation checker at the scripted server boundary (every
request URL, POST body and frame the real clients emit, every packet handed to
them) against the client application's handler log; ids are unique in both
directions.
"""
import base64
import urllib.parse

from vf import cli, gen, scen
from vf.rec import Rec
from vf.simbase import decode_packet

PROPERTY = 'C09'
LEVEL = 'exploration'
RULE = ('seeded conversations: server scripts (bursts of 1..30 messages of '
        'text/JSON/binary, PINGs with arbitrary text data, NOOPs, packet types '
        '0 5 7 8 9 sent to the client, probe answered correctly / wrongly / '
        'not at all / socket refused) x application send sequences (1..25, '
        'text/JSON/binary) x transports {[polling],[websocket],default} x '
        'silence starting at a seeded step x client {Client, AsyncClient}; '
        'plus a URL grammar (scheme http/https/ws/wss, userinfo, host name / '
        'IPv4 / IPv6, port, path, query with repeated and empty keys, '
        'fragment) x endpoint {engine.io, /custom/path/, a/b}. distinct = '
        'distinct (client, transport, probe, script-shape) and URL-shape '
        'signatures; plus announced heartbeats {300/60, 130/5, 3600/30, '
        '25/20, 0.5/0.25, 60/120 s} x transport x client: three idle '
        'intervals each ended by a PING, then silence (bounded both ways); '
        'half of the asyncio conversations run over a REAL '
        'aiohttp.ClientSession (world R)')
ASSUMPTIONS = ['threaded client runs under the FIFO schedule for the order '
               'oracle (its message handlers are started as one task per '
               'message)',
               'PONG data is compared as decoded values (a PING whose text is '
               'a JSON literal comes back re-serialised); the literal null is '
               'not used as PING data']
REQUIRED = ['pong_echo', 'handshake_extras', 'sends_from_connect_handler',
            'caller_ws_timeout',
            'downstream_exactly_once',
            'upstream_exactly_once',
            'binary_channel', 'url_oracle', 'upgrade_conduct',
            'silence_bound']
SHARD_TIMEOUT = {'quick': 500, 'thorough': 3400}
PI, PT = 2, 1


def mk_payload(rng, tag, k):
    kind = rng.choice(['text', 'json', 'binary'])
    i = '%s%d' % (tag, k)
    if kind == 'text':
        return i, i + '|' + gen.rtext(rng, 0, 6, 'abc xyz:{}[]"'), kind
    if kind == 'json':
        return i, {'id': i, 'v': [1, None, 'x']}, kind
    return i, i.encode('ascii') + b'\x00\xff', kind


def id_of(data):
    if isinstance(data, (bytes, bytearray)):
        data = bytes(data).split(b'\x00')[0].decode('ascii', 'replace')
    if isinstance(data, dict):
        data = data.get('id')
    if isinstance(data, str):
        return data.split('|')[0]
    return None


def wire_of(data):
    """Polling wire form of a MESSAGE with this data."""
    return gen.ref_encode(4, data, True)


def run_conversation(rec, case):
    rng = gen.mkrng('c09', case['seed'], case['i'])
    kind = rng.choice('TA')
    if kind == 'A' and case.get('real'):
        # the asyncio client over a REAL aiohttp.ClientSession
        kind = 'R'
        rec.count('conversations_over_real_aiohttp_session')
    transport = rng.choice(['polling', 'websocket', 'upgrade'])
    probe = rng.choice(['ok', 'ok', 'wrong', 'silent', 'refuse',
                        'upgrade-write-fails']) \
        if transport == 'upgrade' else 'ok'
    rec.evaluations += 1
    script = {'pi': PI, 'pt': PT}
    if transport == 'upgrade':
        if probe == 'refuse':
            script['ws'] = 'refuse'
        else:
            script['probe'] = probe
    sched_seed = rng.randrange(1 << 30) if (kind == 'T' and
                                            rng.random() < 0.4) else 0
    # packets that ride along with the OPEN packet in the handshake response
    # (a server application may greet from its connect handler)
    down0 = []
    if transport != 'websocket' and rng.random() < 0.3:
        for k in range(rng.randint(1, 3)):
            i, data, kd = mk_payload(rng, 'G', k)
            down0.append((i, data))
        script['open_extra'] = [wire_of(d) for i, d in down0]
        rec.count('handshake_extras')
    plain = kind in 'AR' and rng.random() < 0.3
    legacy = rng.random() < 0.2
    extra = {}
    if rng.random() < 0.25:
        # a connection time-out of the caller's choosing for the WebSocket:
        # it must not change how silence is detected afterwards
        extra['websocket_extra_options'] = {
            'timeout': rng.choice([0.25, 30])}
        rec.count('caller_ws_timeout')
    w = cli.make_world(kind, script=script,
                       policy='random' if sched_seed else 'fifo',
                       seed=sched_seed, yield_prob=0.3 if sched_seed else 0.0,
                       request_timeout=5, plain_handlers=plain,
                       legacy_disconnect=legacy, **extra)
    if kind == 'A':
        w.srv.write_error_kind = ['disconnected', 'reset', 'pipe', 'timeout',
                                  'unreachable'][case['i'] % 5]
    desc = 'client=%s%s%s%s transport=%s probe=%s extras=%d' % (
        'Client' if kind == 'T' else 'AsyncClient' if kind == 'A' else
        'AsyncClient(real aiohttp session)',
        ' plain-handlers' if plain else '', ' legacy-disconnect' if legacy
        else '', ' %r' % extra if extra else '', transport, probe, len(down0))
    steps = []

    def V(key, msg):
        rec.viol(key, msg + ' | ' + desc + ' steps=%r' % (steps[-20:],), case)
    # sends issued from inside the connect handler: they are queued while the
    # client is still on its first transport and go out after the upgrade
    up0 = []
    if not plain and rng.random() < 0.35:
        for k in range(rng.randint(1, 3)):
            i, data, kd = mk_payload(rng, 'E', k)
            up0.append((i, data, kd))
        rec.count('sends_from_connect_handler')
    try:
        c, srv = w.cli, w.srv
        if up0:
            if kind == 'T':
                def on_connect():
                    for i, data, kd in up0:
                        c.c.send(data)
            else:
                async def on_connect():
                    for i, data, kd in up0:
                        await c.c.send(data)
            c.on_connect = on_connect
        tr = {'polling': ['polling'], 'websocket': ['websocket'],
              'upgrade': None}[transport]
        r = c.call('connect', 'http://srv.test/', transports=tr)
        w.run_until(lambda: r['done'], 30)
        if not r['done'] or r['exc'] is not None:
            V('connect-failed', 'connect: done=%r exc=%r' % (r['done'],
                                                             r['exc']))
            return
        on_ws = transport == 'websocket' or (transport == 'upgrade' and
                                             probe == 'ok')
        if kind == 'R':
            w.quiesce()     # bytes written by the client are still in flight
        rec.count('upgrade_conduct')
        if c.c.transport() != ('websocket' if on_ws else 'polling'):
            V('upgrade-conduct-transport', 'client is on %r after probe=%s' %
              (c.c.transport(), probe))
            return
        if transport == 'upgrade':
            fr = [f['frame'] for f in srv.frames]
            if probe in ('ok', 'wrong', 'silent', 'upgrade-write-fails') \
                    and fr[:1] != ['2probe']:
                V('upgrade-without-probe', 'first frame on the upgrade socket '
                  'is %r' % (fr[:1],))
            if probe == 'ok' and fr[:2] != ['2probe', '5']:
                V('upgrade-sequence', 'frames %r' % (fr[:3],))
            if probe != 'ok' and '5' in fr:
                V('upgrade-despite-failed-probe', 'client sent UPGRADE '
                  'although the probe was answered %s' % probe)

        def deliver(*packets):
            if on_ws:
                for p in packets:
                    srv.ws.push(p)
            else:
                srv.push(*[p if isinstance(p, str) else
                           'b' + base64.b64encode(p).decode() for p in packets])
        down, up, pings = list(down0), list(up0), []
        nd = nu = 0
        silent_at = None
        nsteps = rng.randint(3, 14)
        silence_step = rng.randrange(nsteps + 3)
        for st in range(nsteps):
            if st == silence_step:
                silent_at = w.now
                steps.append('silence')
                break
            k = rng.random()
            if k < 0.35:
                n = rng.choice([1, 2, 5, 12, 30])
                pk = []
                for _ in range(n):
                    nd += 1
                    i, data, kd = mk_payload(rng, 'D', nd)
                    down.append((i, data))
                    if kd == 'binary' and on_ws:
                        pk.append(data)
                    else:
                        pk.append(wire_of(data) if not (kd == 'binary')
                                  else data)
                deliver(*pk)
                steps.append('burst%d' % n)
            elif k < 0.6:
                n = rng.choice([1, 2, 6, 25])
                batch = []
                for _ in range(n):
                    nu += 1
                    i, data, kd = mk_payload(rng, 'U', nu)
                    up.append((i, data, kd))
                    batch.append(data)
                rs = c.call_seq('send', batch)   # one application task
                w.run_until(lambda: rs['done'], 30)
                steps.append('sends%d' % n)
            elif k < 0.75:
                # ('null' is left out: it decodes to "no data", which is
                # echoed as an absent payload - equal as decoded values only
                # if None and '' are identified; see ASSUMPTIONS)
                pdata = rng.choice(['', 'x', 'probe', 'h\u00e9llo', '{"a": 1}',
                                    '123', '[1, 2]', ' sp ace '])
                pings.append(pdata)
                deliver('2' + pdata)
                steps.append('ping')
            elif k < 0.85:
                odd = rng.choice(['6', '6', '5', '0{"sid":"zzz"}', '7',
                                  '8x', '9', None])
                if odd is None and not on_ws:
                    # a poll answered 200 with nothing in it (what a server
                    # sends when it has nothing to say and no NOOP to spare):
                    # it carries no packet, so nothing may happen twice
                    w.quiesce()
                    srv.push()
                    rec.count('empty_poll_answers')
                    steps.append('empty')
                else:
                    deliver(odd or '6')
                    steps.append('odd')
            else:
                # the scripted server emits no periodic PING by itself
                # (a real server PINGs every ping_interval; both client loops
                # treat a longer idle period as a dead connection)
                pings.append('')
                deliver('2')
                w.quiesce()
                w.advance(rng.choice([0.25, 1, 2]))
                steps.append('adv')
            if rng.random() < 0.6:
                w.quiesce()
        w.quiesce()
        w.advance(0.5)
        # ---- downstream: exactly once, in order, decoded
        rec.count('downstream_exactly_once', max(1, len(down)))
        got = [e['data'] for e in c.events if e['ev'] == 'message']
        gids = [id_of(d) for d in got]
        wids = [i for i, d in down]
        if sched_seed and sorted(gids, key=str) == sorted(wids, key=str):
            # the threaded client starts one task per message: under a
            # random schedule only exactly-once is required
            gids = wids
            got = [dict(down)[i] for i in wids] and got
            got = sorted(got, key=lambda d: wids.index(id_of(d)))
        if gids != wids:
            kindv = 'lost' if len(gids) < len(wids) else \
                'duplicated' if len(gids) > len(wids) else 'reordered'
            V('downstream-' + kindv, 'handler saw %r, server sent %r' % (
                gids[:40], wids[:40]))
        else:
            for (i, d), g in zip(down, got):
                if not gen.same(g, gen.expected_roundtrip(d)):
                    V('downstream-payload', '%s arrived as %r' % (i, g))
                    break
        # ---- upstream: exactly once, in order, right channel
        sent = []
        for p in srv.posts:
            for piece in p['body'].split(gen.SEP):
                sent.append(('poll', piece))
        for f in srv.frames:
            if not f.get('upgrade_socket'):
                sent.append(('ws', f['frame']))
        upids, pongs = [], []
        rec.count('upstream_exactly_once', max(1, len(up)))
        for via, piece in sent:
            try:
                tp, data = decode_packet(piece)
            except Exception:
                V('client-emitted-garbage', 'client put %r on the wire' % (
                    piece,))
                continue
            if tp == 4:
                upids.append((id_of(data), via, piece))
            elif tp == 3:
                pongs.append(data)
        want = [i for i, d, kd in up]
        if [u[0] for u in upids] != want:
            gl = [u[0] for u in upids]
            kindv = 'lost' if len(gl) < len(want) else \
                'duplicated' if len(gl) > len(want) else 'reordered'
            V('upstream-' + kindv, 'server received %r, application sent %r'
              % (gl[:40], want[:40]))
        else:
            rec.count('binary_channel')
            for (i, d, kd), (gid, via, piece) in zip(up, upids):
                if via == 'ws' and kd == 'binary' and \
                        not isinstance(piece, (bytes, bytearray)):
                    V('binary-as-text-on-websocket', '%s sent as text frame '
                      '%r' % (i, piece[:30]))
                    break
                if via == 'ws' and kd != 'binary' and \
                        isinstance(piece, (bytes, bytearray)):
                    V('text-as-binary-on-websocket', '%s sent as binary' % i)
                    break
                if via == 'poll' and kd == 'binary' and \
                        piece != wire_of(d):
                    V('binary-not-base64-on-polling', '%s sent as %r' % (
                        i, piece[:40]))
                    break
                if via == ('poll' if on_ws else 'ws'):
                    V('wrong-transport-used', '%s travelled on %s while the '
                      'client is on %s' % (i, via, c.c.transport()))
                    break
        # ---- PONG echo
        rec.count('pong_echo', max(1, len(pings)))
        if silent_at is None or True:
            wantp = [gen.expected_text_decode(p) for p in pings]
            if len(pongs) != len(wantp) or not all(
                    gen.same(a, b) for a, b in zip(pongs, wantp)):
                V('pong-echo', 'PINGs carried %r, PONGs carried %r' % (
                    pings, pongs))
        # ---- silence
        if silent_at is not None:
            rec.count('silence_bound')
            srv.silent = True
            bound = PI + PT + 5 + 0.001 + (1 if kind == 'R' else 0)
            last_rx = max([silent_at] + [0])
            w.run_until(lambda: any(e['ev'] == 'disconnect'
                                    for e in c.events), bound + 10)
            dis = [e for e in c.events if e['ev'] == 'disconnect']
            if not dis:
                V('silence-not-detected', 'server silent since t=%.3f, no '
                  'disconnect by t=%.3f' % (silent_at, w.now))
            else:
                if dis[0]['reason'] not in ('transport error', '?legacy'):
                    V('silence-reason', 'reason %r' % dis[0]['reason'])
                if dis[0]['t'] > silent_at + bound:
                    V('silence-detected-late', 'silent since %.3f, detected '
                      'at %.3f > bound %.3f' % (silent_at, dis[0]['t'],
                                                silent_at + bound))
        rec.key('%s/%s/%s/%s' % (kind, transport, probe, ''.join(
            s[0] for s in steps)))
        if rec.evaluations % 199 == 1:
            rec.sample({'conversation': desc, 'steps': steps,
                        'down': wids[:10], 'up': want[:10]})
    finally:
        w.teardown()


SCHEMES = ['http', 'https', 'ws', 'wss']
HOSTS = ['srv.test', '10.1.2.3', '[::1]', 'xn--bcher-kva.example', 'LOCALHOST']
PATHS = ['', '/', '/app', '/app/', '/a/b/c']
QUERIES = ['', 'a=1', 'a=1&a=2', 'token=x%20y&b=', 'q=%26%3D&z', 'EIO=3',
           'transport=foo']
ENDPOINTS = ['engine.io', '/custom/path/', 'a/b', 'socket.io']


def run_url(rec, case):
    rng = gen.mkrng('c09url', case['seed'], case['i'])
    kind = rng.choice('TA')
    scheme = rng.choice(SCHEMES)
    host = rng.choice(HOSTS)
    port = rng.choice(['', ':80', ':8443', ':5000'])
    user = rng.choice(['', '', 'user:pw@'])
    path = rng.choice(PATHS)
    query = rng.choice(QUERIES)
    frag = rng.choice(['', '', '#frag'])
    ep = rng.choice(ENDPOINTS)
    transport = rng.choice(['polling', 'websocket', 'upgrade'])
    url = '%s://%s%s%s%s%s%s' % (scheme, user, host, port, path,
                                 '?' + query if query else '', frag)
    rec.evaluations += 1
    ts = rng.random() < 0.7
    w = cli.make_world(kind, script={'pi': PI, 'pt': PT}, request_timeout=5,
                       timestamp_requests=ts)

    def V(key, msg):
        rec.viol(key, msg + ' | client=%s url=%r endpoint=%r transport=%s' % (
            kind, url, ep, transport), case)
    try:
        tr = {'polling': ['polling'], 'websocket': ['websocket'],
              'upgrade': None}[transport]
        r = w.cli.call('connect', url, transports=tr, engineio_path=ep)
        w.run_until(lambda: r['done'], 30)
        if not r['done'] or r['exc'] is not None:
            V('connect-failed', 'connect(%r): %r' % (url, r['exc']))
            return
        w.cli.call('send', 'x')
        w.quiesce()
        secure = scheme in ('https', 'wss')
        caller = urllib.parse.parse_qsl(query, keep_blank_values=True)
        rec.count('url_oracle', len(w.srv.requests))
        for rq in w.srv.requests:
            is_ws = rq['method'] == 'WS'
            want_scheme = ('ws' if is_ws else 'http') + ('s' if secure else '')
            if rq['scheme'] != want_scheme:
                V('url-scheme', '%s request uses scheme %r, expected %r' % (
                    rq['method'], rq['scheme'], want_scheme))
            if rq['netloc'] != user + host + port:
                V('url-netloc', 'netloc %r, expected %r' % (
                    rq['netloc'], user + host + port))
            if rq['path'] != '/' + ep.strip('/') + '/':
                V('url-path', 'path %r, expected %r' % (
                    rq['path'], '/' + ep.strip('/') + '/'))
            got = urllib.parse.parse_qsl(urllib.parse.urlsplit(
                rq['url']).query, keep_blank_values=True)
            # caller's pairs first and intact
            if got[:len(caller)] != caller:
                V('url-query-caller', 'query %r does not keep the caller\'s '
                  '%r' % (got, caller))
            rest = dict(got[len(caller):])
            if rest.get('EIO') != '4':
                V('url-eio', 'EIO=%r' % rest.get('EIO'))
            if rest.get('transport') != ('websocket' if is_ws else 'polling'):
                V('url-transport', 'transport=%r on a %s request' % (
                    rest.get('transport'), rq['method']))
            if not ts and 't' in rest:
                V('url-timestamp-although-disabled', 't=%r with '
                  'timestamp_requests=False' % rest['t'])
            extra = set(rest) - {'EIO', 'transport', 'sid', 't'}
            if extra:
                V('url-extra-parameters', 'unexpected parameters %r' % extra)
            if 'sid' in rest and rest['sid'] != w.srv.sid:
                V('url-sid', 'sid=%r' % rest['sid'])
        rec.key('url/%s/%s/%s/%s/%s/%s/%s' % (kind, scheme, bool(user),
                                               HOSTS.index(host), bool(port),
                                               QUERIES.index(query),
                                               transport))
        if rec.evaluations % 299 == 1:
            rec.sample({'url': url, 'endpoint': ep,
                        'requests': [q['url'] for q in w.srv.requests][:3]})
    finally:
        w.teardown()


HEARTBEATS = [(300, 60), (130, 5), (3600, 30), (25, 20), (0.5, 0.25),
              (60, 120)]


def run_heartbeat(rec, case):
    """A server that announces a large (or tiny) but legal heartbeat and is
    idle between its PINGs: the client stays connected and answers each PING
    for several cycles, and once the server goes silent it declares the
    connection lost within ping_interval + ping_timeout (+ the fixed grace
    on polling) - not earlier, not later."""
    kind, transport, (pi, pt) = case['kind'], case['transport'], case['hb']
    rec.evaluations += 1
    rec.count('announced_heartbeats')
    rec.key('hb/%s/%s/%s/%s' % (kind, transport, pi, pt))
    w = cli.make_world(kind, script={'pi': pi, 'pt': pt}, request_timeout=5)

    def V(key, msg):
        rec.viol(key, msg + ' | client=%s transport=%s announced '
                 'pingInterval=%ss pingTimeout=%ss' % (kind, transport, pi,
                                                       pt), case)
    try:
        c, srv = w.cli, w.srv
        r = c.call('connect', 'http://srv.test/', transports=[transport])
        w.run_until(lambda: r['done'], 30)
        if not r['done'] or r['exc'] is not None:
            V('connect-failed', 'connect: %r' % (r['exc'],))
            return
        for cycle in range(3):
            # the server is idle for a whole interval, then PINGs
            w.advance(pi)
            dis = [e for e in c.events if e['ev'] == 'disconnect']
            if dis:
                V('idle-connection-dropped-by-client', 'the client declared '
                  'the connection lost (%r at t=%.3f) while the server was '
                  'idle for one announced ping interval (cycle %d)' % (
                      dis[0]['reason'], dis[0]['t'], cycle))
                return
            def npongs():
                return len([x for po in srv.posts
                            for x in po['body'].split(gen.SEP)
                            if x[:1] == '3']) + len(
                    [f for f in srv.frames if isinstance(f['frame'], str)
                     and f['frame'][:1] == '3'])
            n0 = npongs()
            if transport == 'websocket':
                srv.ws.push('2')
            else:
                srv.push('2')
            w.quiesce()
            w.advance(min(pt / 2.0, 1))
            if npongs() != n0 + 1:
                V('pong-echo', 'PING %d after an idle interval got %d PONGs' %
                  (cycle, npongs() - n0))
                return
        silent_at = w.now
        srv.silent = True
        rec.count('silence_bound')
        # (a real aiohttp session rounds time-outs of more than 5 s up to a
        # whole second of loop time)
        bound = pi + pt + 5 + 0.001 + (1 if kind == 'R' else 0)
        w.run_until(lambda: any(e['ev'] == 'disconnect' for e in c.events),
                    bound + 10)
        dis = [e for e in c.events if e['ev'] == 'disconnect']
        if not dis:
            V('silence-not-detected', 'server silent since t=%.3f, no '
              'disconnect by t=%.3f' % (silent_at, w.now))
        elif dis[0]['t'] > silent_at + bound:
            V('silence-detected-late', 'silent since %.3f, detected at %.3f '
              '> bound %.3f' % (silent_at, dis[0]['t'], silent_at + bound))
    finally:
        w.teardown()


def run_reconnect(rec, case):
    """One client object used for two connections in a row on different
    transports: what the second connection does (PONG echo, sends, the
    transport used) is not affected by what the first one left behind."""
    kind, first, second = case['kind'], case['first'], case['second']
    rec.evaluations += 1
    rec.count('reconnect_conversations')
    rec.key('reconnect/%s/%s/%s' % (kind, first, second))
    w = cli.make_world(kind, script={'pi': PI, 'pt': PT}, request_timeout=5)

    def V(key, msg):
        rec.viol(key, msg + ' | client=%s first connection on %s, second on '
                 '%s (same client object)' % (kind, first, second), case)

    def pongs_and_msgs():
        posted = [x for po in srv.posts for x in po['body'].split(gen.SEP)]
        framed = [f['frame'] for f in srv.frames
                  if isinstance(f['frame'], str)]
        return posted, framed
    try:
        c, srv = w.cli, w.srv
        for n, tr in enumerate((first, second)):
            srv.session_closed = False
            srv.ws = None
            srv.pollq = srv.mk()
            posts0, frames0 = len(srv.posts), len(srv.frames)
            srv.script = {'pi': PI, 'pt': PT}
            trs = {'polling': ['polling'], 'websocket': ['websocket'],
                   'upgrade': None}[tr]
            r = c.call('connect', 'http://srv.test/', transports=trs)
            w.run_until(lambda: r['done'], 30)
            if not r['done'] or r['exc'] is not None:
                V('connect-failed', 'connection %d: %r' % (n + 1, r['exc']))
                return
            w.quiesce()
            on_ws = c.c.transport() == 'websocket'
            if on_ws != (tr != 'polling'):
                V('wrong-transport-used', 'connection %d is on %r' % (
                    n + 1, c.c.transport()))
                return
            tag = 'hb%d' % n
            for k in range(2):
                if on_ws:
                    srv.ws.push('2%s.%d' % (tag, k))
                else:
                    srv.push('2%s.%d' % (tag, k))
                w.quiesce()
                w.advance(0.25)
            rs = c.call('send', 'msg%d' % n)
            w.run_until(lambda: rs['done'], 30)
            w.quiesce()
            w.advance(0.5)
            posted = [x for po in srv.posts[posts0:]
                      for x in po['body'].split(gen.SEP)]
            framed = [f['frame'] for f in srv.frames[frames0:]
                      if isinstance(f['frame'], str)]
            seen = framed if on_ws else posted
            other = posted if on_ws else [
                f for f in framed if f not in ('2probe', '5')]
            rec.count('pong_echo', 2)
            want = ['3%s.%d' % (tag, k) for k in range(2)]
            if [x for x in seen if x.startswith('3')] != want:
                V('pong-echo', 'connection %d (%s): PINGs %r were answered '
                  'with %r on the transport in use (other transport: %r)' % (
                      n + 1, c.c.transport(), want,
                      [x for x in seen if x.startswith('3')], other))
                return
            if '4msg%d' % n not in seen:
                V('upstream-lost', 'connection %d: send() not transmitted on '
                  'the transport in use: %r' % (n + 1, seen))
                return
            rd = c.call('disconnect')
            w.run_until(lambda: rd['done'], 30)
            w.quiesce()
            w.advance(1)
            if c.c.state != 'disconnected':
                V('state-not-reset', 'state %r after disconnect()' %
                  c.c.state)
                return
    finally:
        w.teardown()


def run_lost_response(rec, case):
    """A POST that the server received and processed but whose answer never
    arrives (the connection went away): the application's sends are still
    transmitted exactly once - the client does not post the batch again."""
    kind, n = case['kind'], case['n']
    rec.evaluations += 1
    rec.count('lost_post_responses')
    rec.key('lostresp/%s/%d' % (kind, n))
    w = cli.make_world(kind, script={'pi': PI, 'pt': PT}, request_timeout=5)

    def V(key, msg):
        rec.viol(key, msg + ' | client=%s, %d sends in a POST whose answer is '
                 'lost' % (kind, n), case)
    try:
        c, srv = w.cli, w.srv
        r = c.call('connect', 'http://srv.test/', transports=['polling'])
        w.run_until(lambda: r['done'], 30)
        if not r['done'] or r['exc'] is not None:
            V('connect-failed', 'connect: %r' % (r['exc'],))
            return
        srv.script['post'] = 'lost-response'
        rs = c.call_seq('send', ['once-%d' % k for k in range(n)])
        w.run_until(lambda: rs['done'], 30)
        w.quiesce()
        w.advance(0.5)
        srv.script['post'] = 'ok'
        w.advance(2)
        seen = [x for po in srv.posts for x in po['body'].split(gen.SEP)
                if x.startswith('4once-')]
        rec.count('upstream_exactly_once', max(1, len(seen)))
        if len(seen) != len(set(seen)):
            V('upstream-duplicated', 'the server received %r' % (seen,))
    finally:
        w.teardown()


def dispatch(rec, case):
    if case.get('lostresp'):
        run_lost_response(rec, case)
    elif case.get('reconnect'):
        run_reconnect(rec, case)
    elif case.get('hb'):
        run_heartbeat(rec, case)
    elif case.get('url'):
        run_url(rec, case)
    else:
        run_conversation(rec, case)


def plan(tier, seed):
    n = 16
    per = 40000 if tier == 'thorough' else 500
    peru = 12000 if tier == 'thorough' else 300
    return [{'seed': seed, 'shard': s, 'n': per, 'nu': peru}
            for s in range(n)]


def run_shard(spec):
    rec = Rec()
    cases = [{'seed': spec['seed'], 'i': spec['shard'] * 1000000 + k}
             for k in range(spec['n'])]
    for c in cases[::2]:
        c['real'] = True
    cases += [{'seed': spec['seed'], 'i': spec['shard'] * 1000000 + k,
               'url': True} for k in range(spec['nu'])]
    if spec['shard'] == 2:
        cases += [{'lostresp': True, 'kind': k, 'n': n}
                  for k in 'TAR' for n in (1, 2, 5, 16)]
    if spec['shard'] == 1:
        cases += [{'reconnect': True, 'kind': k, 'first': a, 'second': b}
                  for k in 'TAR'
                  for a in ('polling', 'websocket', 'upgrade')
                  for b in ('polling', 'websocket', 'upgrade')]
    if spec['shard'] == 0:
        cases += [{'hb': list(hb), 'kind': k, 'transport': tr}
                  for hb in HEARTBEATS for k in 'TAR'
                  for tr in ('polling', 'websocket')]
    scen.run_cases(rec, cases, dispatch)
    return rec.result()


replay = scen.simple_replay(dispatch)

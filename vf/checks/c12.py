"""C12 - request admission.

Monitor: a reference admission function written from the statement decides
which requests MUST be refused; every refused request (required or not) is
bracketed by state snapshots of the real server (session table, per-session
flags, queue contents, handler log, background tasks) which must be equal,
liveness-normalised.
"""
import itertools

from vf import gen, scen
from vf.rec import Rec

PROPERTY = 'C12'
LEVEL = 'exploration'
RULE = ('cross product method(7) x EIO(6) x transport(4) x sid kind(7: absent, '
        'live polling, live upgraded, mid-upgrade, closed-not-reaped, unknown, '
        'rejected) x Upgrade/Connection headers(4) x JSONP index(5) x '
        'configured transports(3) x server(2), each cell issued against a '
        'freshly prepared population (one session of every kind); thorough = '
        'all cells, quick = all cells within 2 coordinates of the default + '
        'seeded sample. non-trivial = the reference requires refusal or the '
        'request was refused (snapshot oracle evaluated); distinct = distinct '
        'such cells; plus seeded query strings that REPEAT parameters (EIO, '
        'transport, sid, j) with conflicting values, refused-required only '
        'when every reading of the repetition is a refusal')
ASSUMPTIONS = ['OPTIONS requests are status don\'t-care (CORS pre-flight); '
               'EIO values "04"/"4 ", blank j= and POST/transport mismatches '
               'are don\'t-care cells; the no-effect oracle applies to every '
               'request actually answered 400/405',
               'lazy reaping of an already closed table entry is not an effect']
REQUIRED = ['must_refuse', 'no_effect_snapshot', 'admitted_sanity']
SHARD_TIMEOUT = {'quick': 300, 'thorough': 3000}

METHODS = ['GET', 'POST', 'OPTIONS', 'PUT', 'DELETE', 'HEAD', 'PATCH']
EIO = [None, '3', '4', '5', '4 ', '04']
TRANSPORT = [None, 'polling', 'websocket', 'foo']
SIDK = ['absent', 'live', 'upgraded', 'mid', 'closed', 'unknown', 'rejected',
        'live+ctl']     # live+ctl: a live id with a control character added
HDRS = ['none', 'both', 'upgrade-only', 'wrong']
JP = [None, '0', '12', 'abc', '1x']
CONF = [None, 'polling', 'websocket']
SRV = ['T', 'A', 'H', 'N']  # H / N: the asyncio server behind the real aiohttp / tornado adapter
DIMS = [len(METHODS), len(EIO), len(TRANSPORT), len(SIDK), len(HDRS), len(JP),
        len(CONF), len(SRV)]
DEFAULT = (0, 2, 1, 1, 0, 0, 0, 0)


def must_refuse(method, eio, transport, sidk, hdrs, jp, conf):
    """True when the statement requires 400/405."""
    if method not in ('GET', 'POST', 'OPTIONS'):
        return True
    allowed = ['polling', 'websocket'] if conf is None else [conf]
    tr = transport or 'polling'
    if method == 'OPTIONS':
        # the addressing rules that do not depend on a session apply to
        # OPTIONS as to any other request; what an OPTIONS naming a session
        # must be answered is left open (it has no effect either way)
        if tr not in allowed or jp in ('abc', '1x'):
            return True
        if sidk == 'absent' and eio in (None, '3', '5'):
            return True
        return None
    if tr not in allowed:
        return True
    if jp in ('abc', '1x'):
        return True
    if sidk == 'absent':
        if method == 'POST':
            return True
        if eio in (None, '3', '5'):
            return True
        if eio in ('4 ', '04'):
            return None
        return None if tr == 'websocket' else False
    if sidk in ('closed', 'unknown', 'rejected', 'live+ctl'):
        return True
    # live session named
    if method == 'GET':
        using = 'websocket' if sidk == 'upgraded' else 'polling'
        # an Upgrade: websocket header claims an upgrade; whether a request
        # lacking Connection: Upgrade is 'a WebSocket upgrade' is not settled
        # by the statement -> don't care
        is_upgrade_req = hdrs in ('both', 'upgrade-only')
        if tr == using:
            if not is_upgrade_req and 'polling' not in allowed:
                # a plain HTTP read is carried by the polling transport
                # whatever its query says; with polling not allowed C06
                # ("a transport ... not allowed is never used") governs
                return None
            return None if is_upgrade_req else False
        if tr == 'websocket' and is_upgrade_req and using == 'polling':
            return None     # an upgrade of it: admitted (C06 governs)
        return True
    return None


def prepare(sim, conf):
    """One session of each kind that the configuration permits."""
    pop = {}
    if conf in (None, 'polling'):
        pop['live'] = sim.open_polling()
        if conf is None:
            h = sim.open_polling()
            ws, ok = sim.do_upgrade(h)
            if ok:
                pop['upgraded'] = h
            h = sim.open_polling()
            ws, t = sim.upgrade_ws(h)
            sim.quiesce()
            ws.send('2probe')
            sim.quiesce()
            pop['mid'] = h
            pop['mid_ws'] = ws
        h = sim.open_polling()
        sim.post(h, '1')
        sim.quiesce()
        pop['closed'] = h
        sim.connect_script = [None] * sim.nconnect + [False]
        sim.open_polling()
        rej = [e for e in sim.events if e['ev'] == 'connect'][-1]['sid']
        pop['rejected'] = type('H', (), {'sid': rej})()
    else:
        h = sim.open_ws()
        pop['upgraded'] = h
        h = sim.open_ws()
        h.ws.send('1')
        sim.quiesce()
        pop['closed'] = h
        sim.connect_script = [None] * sim.nconnect + [False]
        sim.open_ws()
        rej = [e for e in sim.events if e['ev'] == 'connect'][-1]['sid']
        pop['rejected'] = type('H', (), {'sid': rej})()
    # (an id the server never issued - and a long one: whatever the refusal
    # quotes of it must fit where the gateway puts it)
    pop['unknown'] = type('H', (), {'sid': 'nosuchsid' + 'A' * 140})()
    # the id of a live session with a control character in it (it names no
    # session)
    base = pop.get('live') or pop.get('upgraded')
    if base is not None and base.sid:
        k = len(sim.events) % 4
        ctl = ['\n', '\x00', '\t', '\r\n'][k]
        pos = [len(base.sid), 0, 10, len(base.sid)][k]
        pop['live+ctl'] = type('H', (), {
            'sid': base.sid[:pos] + ctl + base.sid[pos:]})()
    return pop


def norm_snapshot(sim):
    snap = sim.snapshot()
    live = {sid: st for sid, st in snap.items() if not st['closed']}
    if sim.kind == 'T':
        ntasks = len([t for t in sim.sched.live_tasks()])
    else:
        ntasks = len(sim.loop.pending_tasks())
    return {'live': live, 'events': len(sim.events), 'tasks': ntasks}


def run_cell(rec, cell):
    im, ie, it, isk, ih, ij, ic, isrv = cell[:8]
    ws_avail = bool(cell[8]) if len(cell) > 8 else True
    method, eio, transport = METHODS[im], EIO[ie], TRANSPORT[it]
    sidk, hdrs, jp, conf, srv = SIDK[isk], HDRS[ih], JP[ij], CONF[ic], SRV[isrv]
    case = {'cell': list(cell)}
    rec.evaluations += 1
    kw = {}
    if conf is not None:
        kw['transports'] = conf
    sim = scen.make_sim(srv, real_ws_driver=sum(cell[:8]) % 2 == 1,
                        server_kwargs=kw, websocket_available=ws_avail)
    try:
        pop = prepare(sim, conf if ws_avail else 'polling')
        sidv = None
        if sidk != 'absent':
            if sidk not in pop or pop[sidk].sid is None:
                return          # kind not constructible under this config
            sidv = pop[sidk].sid
        q = {}
        if transport is not None:
            q['transport'] = transport
        if eio is not None:
            q['EIO'] = eio
        if sidv is not None:
            q['sid'] = sidv
        if jp is not None:
            q['j'] = jp
        hd = {'none': {}, 'both': {'Upgrade': 'websocket',
                                   'Connection': 'Upgrade'},
              'upgrade-only': {'Upgrade': 'websocket'},
              'wrong': {'Upgrade': 'h2c', 'Connection': 'Upgrade'}}[hdrs]
        want = must_refuse(method, eio, transport, sidk, hdrs, jp, conf)
        if not ws_avail:
            # deployment without a WebSocket driver: whether a WebSocket
            # request is refused is C06/C11's subject; here only "a refused
            # request has no effect at all"
            want = None if want is False else want
            rec.count('no_driver_requests')
        before = norm_snapshot(sim)
        is_ws = hdrs == 'both' and method == 'GET'
        body = b'4x' if method in ('POST', 'PUT', 'PATCH') else None
        if is_ws:
            ws = sim.new_ws()
            t = sim.request(method, q, hd, ws=ws)
            t.ws = ws
        else:
            ws = None
            t = sim.request(method, q, hd, body=body)
        sim.quiesce()
        refused = (t.done and t.code in (400, 405)) or (
            ws is not None and t.done and not ws.accepted and t.exc is None
            and srv == 'A' and ws.server_closed)
        desc = ('%s EIO=%r transport=%r sid=%s headers=%s j=%r configured=%r '
                'server=%s%s' % (method, eio, transport, sidk, hdrs, jp, conf,
                                 srv, '' if ws_avail else
                                 ' (no WebSocket driver)'))
        if getattr(t, 'late_refusal', False) and want is True:
            # tornado answered the handshake 101 before the package saw the
            # request; the package's 400 could not be sent (the connection is
            # closed instead). Everything else about the refusal is judged
            # below with the status the package meant to give
            rec.count('late_refusals_on_tornado')
            rec.viol('tornado-websocket-refusal-status', 'WebSocket request '
                     'that must be answered 400 was answered %r on the wire; '
                     'the package then meant %r and the connection was '
                     'closed=%r: %s' % (t.wire_status, t.status,
                                        ws.server_closed, desc), case)
        if want is True:
            rec.count('must_refuse')
            rec.key('refuse/' + ','.join(map(str, cell)))
            if t.exc is not None and not t.done:
                pass
            if t.exc is not None:
                rec.viol('refusal-raises-%s-%s' % (
                    type(t.exc).__name__, sidk),
                    'request that must be refused raised %r: %s' % (t.exc,
                                                                     desc),
                    case)
            elif not t.done:
                rec.viol('refusal-hangs', 'request that must be refused did '
                         'not complete: %s' % desc, case)
            elif not refused:
                rec.viol('admitted-%s-%s' % (
                    'method' if method not in ('GET', 'POST') else
                    'dead-sid' if sidk in ('closed', 'unknown', 'rejected')
                    else 'other', method),
                    'request that must be refused answered %r: %s' % (
                        t.status, desc), case)
            elif method not in ('GET', 'POST', 'OPTIONS') and \
                    t.code not in (400, 405):
                rec.viol('wrong-refusal-status', '%r for %s' % (t.status,
                                                                desc), case)
        elif want is False:
            rec.count('admitted_sanity')
            if refused and not (srv == 'N' and hdrs == 'upgrade-only'):
                # (the tornado adapter hands every request that carries
                # "Upgrade: websocket" to tornado's handshake code, which
                # insists on "Connection: upgrade": a refusal of more than
                # the property requires, not judged here)
                rec.viol('refused-valid', 'well-addressed request refused '
                         'with %r: %s' % (t.status, desc), case)
        if refused:
            rec.count('no_effect_snapshot')
            rec.key('noeffect/' + ','.join(map(str, cell)))
            after = norm_snapshot(sim)
            if after != before:
                diff = {k: (before[k], after[k]) for k in before
                        if before[k] != after[k]}
                rec.viol('refused-request-had-effect', 'refused request (%s) '
                         'changed state: %s' % (desc, str(diff)[:500]), case)
        if rec.evaluations % 1511 == 1:
            rec.sample({'request': desc, 'must_refuse': want,
                        'status': t.status})
    finally:
        sim.teardown()


RAW_VALUES = {
    'EIO': ['4', '3', '5', '4.0', ''],
    'transport': ['polling', 'websocket', 'foo'],
    'sid': ['LIVE', 'CLOSED', 'UNKNOWN'],
    'j': ['0', '7', 'abc'],
}


def raw_must_refuse(method, pairs):
    """Reference for query strings that repeat parameters. A repeated
    parameter with conflicting values is refused-or-not at the server's
    choice UNLESS every reading of it is a refusal: no value names a live
    session, no value is an allowed transport, no value is a numeric index;
    an opening request that names any version other than 4 is not a
    version-4 request."""
    vals = {}
    for k, v in pairs:
        if v != '':     # a blank value names nothing (same as absent)
            vals.setdefault(k, []).append(v)
    if method not in ('GET', 'POST'):
        return None
    tr = vals.get('transport', ['polling'])
    if all(t not in ('polling', 'websocket') for t in tr):
        return True
    if 'j' in vals and all(not v.isdigit() for v in vals['j']):
        return True
    if 'sid' in vals:
        if all(v in ('CLOSED', 'UNKNOWN') for v in vals['sid']):
            return True
        return None
    if method == 'POST':
        return True
    if any(v != '4' for v in vals.get('EIO', [None])):
        return True
    return None


def run_raw(rec, case):
    method, srv, pairs = case['method'], case['srv'], case['raw']
    rec.evaluations += 1
    sim = scen.make_sim(srv)
    try:
        pop = prepare(sim, None)
        sub = {'LIVE': pop['live'].sid, 'CLOSED': pop['closed'].sid,
               'UNKNOWN': pop['unknown'].sid}
        qs = '&'.join('%s=%s' % (k, sub.get(v, v)) for k, v in pairs)
        want = raw_must_refuse(method, pairs)
        before = norm_snapshot(sim)
        kw = {'env_override': {'QUERY_STRING': qs}} if srv == 'T' else \
            {'raw_query': qs} if srv in scen.HTTPB else \
            {'scope_override': {'query_string': qs.encode()}}
        t = sim.request(method, {}, {}, body=b'4x' if method == 'POST'
                        else None, **kw)
        sim.quiesce()
        refused = t.done and t.code in (400, 405)
        desc = '%s ?%s server=%s' % (method, '&'.join(
            '%s=%s' % (k, v) for k, v in pairs), srv)
        if want is True:
            rec.count('must_refuse')
            rec.count('repeated_parameter_requests')
            rec.key('raw/' + desc)
            if t.exc is not None:
                rec.viol('refusal-raises-%s-raw' % type(t.exc).__name__,
                         'request that must be refused raised %r: %s' % (
                             t.exc, desc), case)
            elif not t.done:
                rec.viol('refusal-hangs', 'request that must be refused did '
                         'not complete: %s' % desc, case)
            elif not refused:
                rec.viol('admitted-repeated-parameter', 'request that must be '
                         'refused under every reading of its repeated '
                         'parameters answered %r: %s' % (t.status, desc), case)
        if refused:
            rec.count('no_effect_snapshot')
            after = norm_snapshot(sim)
            if after != before:
                diff = {k: (before[k], after[k]) for k in before
                        if before[k] != after[k]}
                rec.viol('refused-request-had-effect', 'refused request (%s) '
                         'changed state: %s' % (desc, str(diff)[:500]), case)
    finally:
        sim.teardown()


def raw_cases(tier, rng):
    out = []
    keys = list(RAW_VALUES)
    for _ in range(60000 if tier == 'thorough' else 500):
        pairs = []
        for k in keys:
            r = rng.random()
            n = 0 if r < 0.2 else 1 if r < 0.6 else 2 if r < 0.93 else 3
            if k == 'sid' and rng.random() < 0.5:
                n = 0
            pairs += [[k, rng.choice(RAW_VALUES[k])] for _ in range(n)]
        rng.shuffle(pairs)
        if max([sum(1 for a in pairs if a[0] == k) for k in keys]) < 2:
            continue
        out.append({'raw': pairs, 'srv': rng.choice(SRV),
                    'method': rng.choice(['GET', 'GET', 'POST'])})
    return out


def plan(tier, seed):
    rng = gen.mkrng('c12', seed)
    allc = list(itertools.product(*[range(n) for n in DIMS]))
    if tier == 'thorough':
        chosen = allc
    else:
        near = [c for c in allc
                if sum(1 for a, b in zip(c[:7], DEFAULT[:7]) if a != b) <= 2]
        # the upgrade-request family on live sessions (up to 3 coordinates
        # away from the defaults) is small and is always included
        fam = [c for c in allc if HDRS[c[4]] == 'both' and
               SIDK[c[3]] in ('live', 'upgraded', 'mid') and
               sum(1 for a, b in zip(c[:7], DEFAULT[:7]) if a != b) <= 3]
        # ... and so is the family of requests that name no session
        fam2 = [c for c in allc if SIDK[c[3]] == 'absent' and
                HDRS[c[4]] == 'none' and CONF[c[6]] is None and
                sum(1 for a, b in zip(c[:7], DEFAULT[:7]) if a != b) <= 4]
        chosen = list(dict.fromkeys(near + fam + fam2)) + \
            rng.sample(allc, 3000)
    # deployments without a WebSocket driver: every request that names a
    # session or asks for WebSocket
    nodrv = [c + (0,) for c in allc
             if METHODS[c[0]] in ('GET', 'POST') and EIO[c[1]] == '4' and
             CONF[c[6]] is None and JP[c[5]] in (None, '0') and
             SIDK[c[3]] in ('absent', 'live', 'closed') and
             (HDRS[c[4]] != 'none' or TRANSPORT[c[2]] == 'websocket')]
    chosen = list(chosen) + nodrv
    rng.shuffle(chosen)
    n = 16
    raw = raw_cases(tier, rng)
    return [{'cells': chosen[i::n], 'raw': raw[i::n],
             'all': tier == 'thorough'} for i in range(n)]


def run_shard(spec):
    rec = Rec()
    scen.run_cases(rec, [tuple(c) for c in spec['cells']], run_cell)
    scen.run_cases(rec, spec.get('raw', []), run_raw)
    if spec.get('all'):
        rec.extra['exhaustive'] = True
    return rec.result()


def replay(case):
    rec = Rec()
    if 'raw' in case:
        run_raw(rec, case)
        return rec.violations
    run_cell(rec, tuple(case['cell']))
    return rec.violations

"""C06 - the WebSocket upgrade completes only via the probe handshake; failure
is harmless.

Monitor: a trace automaton over the frames exchanged on the upgrade socket
decides "handshake complete"; transport(sid) is sampled after every step and
must say websocket iff complete. After every non-complete outcome the
reference client drains by polling (everything queued before/during must
arrive exactly once) and then performs a correct handshake, which must
succeed; after completion a further upgrade attempt must leave the established
socket working in both directions.
"""
import itertools

from vf import gen, hist, scen
from vf.rec import Rec

PROPERTY = 'C06'
LEVEL = 'fault_enumeration'
RULE = ('fault enumeration: first frame x second frame over {2probe, 2, 2x, '
        '3probe, 4hi, 5, 5x, x, empty, binary 2probe, oversize, 8x oversize} x '
        'closure point {before probe, after first frame, after second frame, '
        'never, server writes fail} x peer-closure convention {wait() returns None, wait() raises} '
        'x concurrent activity {none, pending poll, queued send, send during '
        'the handshake, all} x allow_upgrades x transports {both, polling, '
        'websocket} x server(2); cells with concurrent activity additionally under '
        'seeded random cooperative schedules; thorough = all cells, quick = seeded sample + '
        'all cells with default config. distinct = distinct cells; each '
        'evaluates the trace automaton; third server = asyncio behind the '
        'real aiohttp adapter; plus two upgrade sockets competing for one '
        'session (3 timings x 5 behaviours x 2 ends x 3 servers)')
ASSUMPTIONS = ['UPGRADE = any packet of type 5; probe = text frame "2probe"',
               'allow_upgrades=False constrains only the advertisement (C11), '
               'not acceptance',
               'a refused further upgrade may surface as an exception of that '
               'upgrade request (it is a WebSocket handshake, not an HTTP '
               'response)']
REQUIRED = ['trace_automaton', 'transport_samples', 'retrievable_after_failure',
            'later_upgrade_succeeds', 'second_upgrade_refused',
            'ws_only_mode', 'disallowed_transport',
            'cells_under_random_schedules', 'no_driver_refusals']
SHARD_TIMEOUT = {'quick': 400, 'thorough': 3000}

MAXB = 1000
FRAMES = ['2probe', '2', '2x', '3probe', '4hi', '5', '5x', 'x', '',
          'bin:2probe', 'over', 'over8']
CLOSE_AT = ['before', 'after1', 'after2', 'never', 'writes-fail',
            'pipelined']
CONC = ['none', 'poll', 'queued', 'during', 'all']
CONV = ['none', 'raise']
AU = [True, False]
TR = [None, 'polling', 'websocket']
SRV = ['T', 'A', 'H', 'N']  # H / N: the asyncio server behind the real aiohttp / tornado adapter


def frame_value(name):
    if name == 'bin:2probe':
        return b'2probe'
    if name == 'over':
        return '4' + 'a' * MAXB
    if name == 'over8':
        return '4' + 'a' * (8 * MAXB)
    return name


def is_upgrade(name):
    return name in ('5', '5x')


def run_cell(rec, cell):
    sched = 0
    if len(cell) == 9:
        sched, cell = cell[8], tuple(cell[:8])
    i1, i2, ic, icv, ico, iau, itr, isrv = cell
    f1, f2, cl = FRAMES[i1], FRAMES[i2], CLOSE_AT[ic]
    conv, conc, au, tr, srv = CONV[icv], CONC[ico], AU[iau], TR[itr], SRV[isrv]
    case = {'cell': list(cell) + ([sched] if sched else [])}
    rec.evaluations += 1
    rec.key('cell/' + ','.join(map(str, cell)) + ('/s' if sched else ''))
    kw = {'allow_upgrades': au, 'max_http_buffer_size': MAXB}
    if tr is not None:
        kw['transports'] = tr
    if sched:
        rec.count('cells_under_random_schedules')
    sim = scen.make_sim(srv, real_ws_driver=sum(cell) % 2 == 1,
                        server_kwargs=kw, ws_close_mode=conv,
                        policy='random' if sched else 'fifo', seed=sched,
                        yield_prob=0.3 if sched else 0.0)
    # the spelling of the handshake headers (case-insensitive tokens) is
    # varied deterministically over the cells
    sim.upgrade_spelling = sum(cell) % 3
    R = hist.Runner(sim)
    desc = ('frames=(%r,%r) close=%s convention=%s concurrent=%s '
            'allow_upgrades=%r transports=%r server=%s' % (
                f1, f2, cl, conv, conc, au, tr, srv))

    def V(key, msg):
        rec.viol(key, msg + ' | ' + desc, case)
    try:
        _run(rec, sim, R, V, f1, f2, cl, conc, au, tr, srv)
    finally:
        sim.teardown()
    if rec.evaluations % 977 == 1:
        rec.sample({'cell': desc})


def _run(rec, sim, R, V, f1, f2, cl, conc, au, tr, srv):
    if tr == 'websocket':
        # polling is not allowed: never used; ws-only sessions are in
        # websocket mode from their OPEN on
        rec.count('disallowed_transport')
        h = sim.open_polling()
        if h.sid is not None or h.open_ticket.code != 400 or \
                sim.table_sids():
            V('disallowed-transport-used', 'polling open on a websocket-only '
              'server answered %r' % (h.open_ticket.status,))
        rec.count('ws_only_mode')
        s = R.open('websocket')
        if not s.accepted:
            V('ws-open-failed', 'websocket open failed: %r' % (
                s.h.open_ticket.status,))
            return
        if sim.transport_of(s.sid) != 'websocket':
            V('ws-open-not-websocket-mode', 'transport() = %r right after a '
              'WebSocket open' % sim.transport_of(s.sid))
        R.send(s, 'text')
        s.ws.send('4' + 'U9.1|t')
        sim.quiesce()
        if not any(d['id'] == 'M0.1' and d['via'] == 'ws'
                   for d in R.deliveries) or \
                not any(e['ev'] == 'message' for e in sim.events):
            V('ws-open-not-working', 'websocket-only session does not carry '
              'messages both ways')
            return
        # polling requests naming the session are not served either,
        # whatever transport their query string claims
        n1 = len(sim.events)
        for label in ('polling', 'websocket'):
            tp = sim.request('POST', {'transport': label, 'EIO': '4',
                                      'sid': s.sid}, {}, body=b'4viapost')
            tg = sim.request('GET', {'transport': label, 'EIO': '4',
                                     'sid': s.sid}, {})
            sim.quiesce()
            if any(e['ev'] == 'message' and e['data'] == 'viapost'
                   for e in sim.events[n1:]) or \
                    (tp.done and tp.code == 200) or \
                    (tg.done and tg.code == 200):
                V('disallowed-transport-used', 'websocket-only server: HTTP '
                  'requests labelled transport=%s naming the session were '
                  'served: POST %r GET %r %r, events %r' % (
                      label, tp.status, tg.status, tg.body,
                      [(e['ev'], e.get('data')) for e in sim.events[n1:]]))
                return
        # a session opened on WebSocket refuses upgrade attempts too, without
        # disturbing its socket
        rec.count('second_upgrade_refused')
        n0 = len(sim.events)
        ws2, t2 = sim.upgrade_ws(s.h)
        sim.quiesce()
        ws2.send('2probe')
        sim.quiesce()
        ws2.send('5')
        sim.quiesce()
        R.send(s, 'json')
        s.ws.send('4' + 'U9.2|t')
        sim.quiesce()
        if ws2.frames or any(e['ev'] == 'disconnect'
                             for e in sim.events[n0:]) or \
                not any(d['id'] == 'M0.2' and d['via'] == 'ws'
                        for d in R.deliveries) or \
                not any(e['ev'] == 'message' and e['data'] == 'U9.2|t'
                        for e in sim.events[n0:]) or \
                sim.transport_of(s.sid) != 'websocket':
            V('established-socket-disturbed', 'upgrade attempt on a session '
              'opened on WebSocket: second socket frames %r, events %r, '
              'transport %r' % (ws2.texts(), [
                  (e['ev'], e.get('reason')) for e in sim.events[n0:]],
                  sim.transport_of(s.sid)))
        return
    s = R.open('polling')
    if not s.accepted:
        V('open-failed', 'polling open failed %r' % (s.h.open_ticket.status,))
        return
    pending = None
    if conc in ('poll', 'all'):
        pending = R.poll(s)
        sim.quiesce()
    if conc in ('queued', 'all'):
        R.send(s, 'text')
        sim.quiesce()
    ws, t = sim.upgrade_ws(s.h)
    ws.on_frame = None
    sim.quiesce()
    if tr == 'polling':
        rec.count('disallowed_transport')
        if ws.accepted:
            V('disallowed-transport-used', 'upgrade accepted on a '
              'polling-only server')
        ws.send('2probe')
        sim.quiesce()
        if sim.transport_of(s.sid) != 'polling' or ws.frames:
            V('disallowed-transport-used', 'polling-only server used the '
              'websocket: transport=%r frames=%r' % (
                  sim.transport_of(s.sid), ws.texts()))
            return
        # the same handshake request labelled transport=polling (the label
        # does not make it a poll: it carries the upgrade headers)
        ws2, t2 = sim.ws_request({'transport': 'polling', 'EIO': '4',
                                  'sid': s.sid})
        sim.quiesce()
        ws2.send('2probe')
        sim.quiesce()
        ws2.send('5')
        sim.quiesce()
        if ws2.accepted or ws2.frames or \
                sim.transport_of(s.sid) != 'polling':
            V('disallowed-transport-used', 'polling-only server: a WebSocket '
              'handshake labelled transport=polling was accepted=%r, frames '
              '%r, transport() now %r' % (ws2.accepted, ws2.texts(),
                                          sim.transport_of(s.sid)))
        return
    if not ws.accepted:
        V('upgrade-not-accepted', 'upgrade request of a live polling session '
          'not accepted: status=%r exc=%r' % (t.status, t.exc))
        return
    rec.count('trace_automaton')
    samples = []

    def sample(step):
        rec.count('transport_samples')
        samples.append((step, sim.transport_of(s.sid)))
    sample('accepted')
    complete = False
    probed = False
    closed = False
    # step 1
    if cl == 'writes-fail':
        # transport fault: every write of the server on this socket fails
        # (the probe answer cannot be sent); reads still work
        ws.send_fails = True
    if cl == 'pipelined':
        # both frames and the Close in one burst, without waiting for any
        # answer: either the server wrote PONG probe before it acted on the
        # UPGRADE (then the handshake completed and the close ended the
        # session), or the handshake failed and the session is on polling
        rec.count('pipelined_handshakes')
        ws.send(frame_value(f1))
        ws.send(frame_value(f2))
        ws.close()
        closed = True
        sim.quiesce()
        sample('pipelined')
        probed = f1 == '2probe' and '3probe' in ws.texts()
        complete = probed and is_upgrade(f2)
        if complete:
            return
    elif cl == 'before':
        ws.close()
        closed = True
        sim.quiesce()
        sample('closed-before')
    else:
        ws.send(frame_value(f1))
        sim.quiesce()
        sample('after-f1')
        probed = f1 == '2probe' and '3probe' in ws.texts()
        if f1 == '2probe' and not probed and not ws.handler_done:
            V('probe-not-answered', 'PING probe not answered with PONG probe: '
              'frames %r' % (ws.texts(),))
        if f1 != '2probe' and '3probe' in ws.texts():
            V('pong-without-probe', 'server answered %r with PONG probe' %
              (f1,))
        if conc in ('during', 'all'):
            R.send(s, 'binary')
            sim.quiesce()
        if cl == 'after1':
            ws.close()
            closed = True
            sim.quiesce()
            sample('closed-after-f1')
        else:
            ws.send(frame_value(f2))
            sim.quiesce()
            sample('after-f2')
            complete = probed and is_upgrade(f2)
            if cl == 'never' and not complete:
                # a handshake that went wrong stays failed whatever arrives
                # on that socket afterwards: a (late) UPGRADE packet - which
                # would complete the sequence if the wrong / empty frame in
                # between had been overlooked - changes nothing
                rec.count('late_upgrade_after_failed_handshake')
                ws.send('5')
                sim.quiesce()
                sample('late-upgrade-after-failure')
            if cl == 'after2':
                ws.close()
                closed = True
                sim.quiesce()
                if not complete:
                    sample('closed-after-f2')
    tp = sim.transport_of(s.sid)
    alive = s.sid in sim.live_sids()
    if complete and cl == 'after2':
        # completed, then the established socket was closed: session ends
        return
    if complete:
        if tp != 'websocket':
            V('complete-handshake-not-upgraded', 'probe handshake completed '
              'but transport() = %r (frames %r)' % (tp, ws.texts()))
            return
        # established: wire it to the runner
        s.ws, s.mode = ws, 'websocket'
        ws.established = True
        seen = len(ws.frames)
        ws.on_frame = lambda c, fr: R._on_frame(s, c, fr, True)
        for f in ws.frames:
            if f['frame'] != '3probe':
                R._on_frame(s, ws, f['frame'], True)
        rec.count('second_upgrade_refused')
        ws2, t2 = sim.upgrade_ws(s.h)
        sim.quiesce()
        ws2.send('2probe')
        sim.quiesce()
        ws2.send('5')
        sim.quiesce()
        if ws2.frames:
            V('second-upgrade-served', 'a further upgrade attempt on an '
              'upgraded session was served: %r' % (ws2.texts(),))
        R.send(s, 'json')
        ws.send('4U0.77|t')
        sim.quiesce()
        got = [d for d in R.deliveries if d['via'] == 'ws' and
               d['chan'] == 'w%d' % id(ws)]
        sent_ids = sorted(x['id'] for x in R.sends)
        allgot = sorted(d['id'] for d in R.deliveries if d['s'] == s.n)
        last = R.sends[-1]['id']
        if allgot != sent_ids or last not in [d['id'] for d in got] or \
                sim.transport_of(s.sid) != 'websocket':
            V('established-socket-disturbed', 'after a refused further '
              'upgrade: delivered %r (on the socket %r) of %r, transport %r'
              % (allgot, sorted(d['id'] for d in got), sent_ids,
                 sim.transport_of(s.sid)))
        if not any(e['ev'] == 'message' and e['data'] == 'U0.77|t'
                   for e in sim.events):
            V('established-socket-disturbed', 'client frame no longer '
              'dispatched after a refused further upgrade')
        return
    # ---- not complete
    for step, val in samples:
        if val == 'websocket':
            V('upgraded-without-handshake', 'transport() = websocket at step '
              '%s although the trace is not PING probe / PONG probe / UPGRADE '
              '(frames sent %r, received %r)' % (
                  step, [x['frame'] if len(repr(x['frame'])) < 30 else '<big>'
                         for x in ws.sent], ws.texts()))
            return
    if not alive:
        V('failed-handshake-killed-session', 'session no longer alive after a '
          'failed handshake')
        return
    if not closed:
        # the client gives up on this socket
        ws.close()
        sim.quiesce()
    # everything queued is retrievable by polling, exactly once
    rec.count('retrievable_after_failure')
    for _ in range(6):
        tk = R.poll(s)
        sim.quiesce()
        if not tk.done:
            break
    want = {x['id'] for x in R.sends}
    got = [d['id'] for d in R.deliveries if d['s'] == s.n]
    if sorted(got) != sorted(want):
        V('queued-message-lost-after-failed-upgrade', 'sent %r, client '
          'retrieved %r by polling after the failed handshake (upgrading=%r)'
          % (sorted(want), sorted(got),
             (sim.snapshot().get(s.sid) or {}).get('upgrading')))
    if any(d['via'] != 'poll' for d in R.deliveries if d['s'] == s.n):
        V('message-on-failed-upgrade-socket', 'a message travelled on the '
          'socket of a failed upgrade')
    # later upgrades still possible
    rec.count('later_upgrade_succeeds')
    for p in s.polls:
        pass
    ws3, ok = sim.do_upgrade(s.h)
    if not ok or sim.transport_of(s.sid) != 'websocket':
        V('later-upgrade-refused', 'a correct handshake after the failed one '
          'did not complete: accepted=%r frames=%r exc=%r' % (
              ws3.accepted, ws3.texts(), ws3.ticket.exc))


def run_nodriver(rec, spec):
    """The deployment has no WebSocket driver (_async['websocket'] is None):
    an upgrade request for a live polling session is refused and must leave
    the session on polling with everything queued retrievable."""
    srv, when = spec['srv'], spec['when']
    case = {'nodriver': dict(spec)}
    rec.evaluations += 1
    rec.count('no_driver_refusals')
    rec.key('nodriver/%s/%s' % (srv, when))
    sim = scen.make_sim(srv, websocket_available=False)
    R = hist.Runner(sim)

    def V(key, msg):
        rec.viol(key, msg + ' | NO-WEBSOCKET-DRIVER server=%s send %s the '
                 'refused upgrade' % (srv, when), case)
    try:
        s = R.open('polling')
        if not s.accepted:
            V('open-failed', 'polling open failed')
            return
        if when == 'before':
            R.send(s, 'text')
            sim.quiesce()
        for _ in range(2):
            ws, t = sim.upgrade_ws(s.h)
            sim.quiesce()
            if ws.accepted or ws.frames:
                V('disallowed-transport-used', 'upgrade accepted although no '
                  'WebSocket driver is available')
                return
        if when == 'after':
            R.send(s, 'text')
            sim.quiesce()
        rec.count('retrievable_after_failure')
        for _ in range(4):
            tk = R.poll(s)
            sim.quiesce()
            if not tk.done:
                break
        got = [d['id'] for d in R.deliveries if d['s'] == s.n]
        if got != ['M0.1'] or sim.transport_of(s.sid) != 'polling':
            V('queued-message-lost-after-failed-upgrade', 'after the refused '
              'upgrade request polling returned %r (transport %r, session '
              'state %r)' % (got, sim.transport_of(s.sid),
                             sim.snapshot().get(s.sid)))
    finally:
        sim.teardown()


def plan(tier, seed):
    rng = gen.mkrng('c06', seed)
    dims = [len(FRAMES), len(FRAMES), len(CLOSE_AT), 2, len(CONC), 2, 3,
            len(SRV)]
    allc = list(itertools.product(*[range(n) for n in dims]))
    if tier == 'thorough':
        chosen = allc
    else:
        base = [c for c in allc if c[3] == 0 and c[5] == 0 and c[6] == 0
                and c[4] in (0, 4)]
        chosen = base + rng.sample(allc, 2000)
    chosen = [tuple(c) for c in chosen]
    # cells with concurrent activity on the threaded server again under
    # seeded random cooperative schedules (with yields at signalling points)
    extra = [c for c in chosen if c[7] == 0 and c[4] != 0 and c[6] == 0]
    if tier != 'thorough':
        extra = rng.sample(extra, min(len(extra), 300))
    for k in range(1, 12 if tier == 'thorough' else 2):
        chosen += [c + (seed * 100 + k,) for c in extra]
    rng.shuffle(chosen)
    n = 16
    shards = [{'cells': chosen[i::n], 'all': tier == 'thorough'}
              for i in range(n)]
    shards[1]['compete'] = [
        {'compete': [srv, b_when, b_act, a_end]} for srv in SRV + ['W']
        for b_when in ('before-probe', 'after-probe', 'probes-early',
                       'accept-delayed')
        for b_act in ('wrong-first', 'close', 'probe-then-wrong',
                      'probe-then-close', 'probe-then-upgrade')
        for a_end in ('client-close', 'disconnect')]
    shards[2]['compete'] = [
        {'competefail': [srv, ap, ah, bp, bh]} for srv in SRV + ['W']
        for ap in (0, 1) for ah in ('wrong', 'close')
        for bp in (0, 1) for bh in ('wrong', 'close')]
    shards[0]['nodriver'] = [{'srv': x, 'when': w} for x in SRV[:2]
                             for w in ('before', 'after')]
    return shards


def run_compete(rec, case):
    """Two upgrade sockets competing for one session (the scenario and its
    oracles live in C15.run_compete): whatever the late-comer does - wrong
    frame, close, the whole handshake - the session stays on the WebSocket
    that completed first: transport() says so, polling reads are refused,
    every message arrives on that socket."""
    from vf.checks import c15
    rec.count('competing_upgrade_attempts')
    if 'competefail' in case:
        c15.run_compete_fail(rec, case)
    else:
        c15.run_compete(rec, case)


def run_shard(spec):
    rec = Rec()
    for nd in spec.get('nodriver', []):
        scen.run_cases(rec, [nd], run_nodriver)
    scen.run_cases(rec, spec.get('compete', []), run_compete)
    scen.run_cases(rec, [tuple(c) for c in spec['cells']], run_cell)
    if spec.get('all'):
        rec.extra['exhaustive'] = True
    return rec.result()


def replay(case):
    rec = Rec()
    if 'nodriver' in case:
        run_nodriver(rec, case['nodriver'])
        return rec.violations
    if 'compete' in case or 'competefail' in case:
        run_compete(rec, case)
        return rec.violations
    run_cell(rec, tuple(case['cell']))
    return rec.violations

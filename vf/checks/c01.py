"""C01 - Packet wire form and round trip.

Monitor: icontract post-conditions installed (from the harness) on the real
Packet.encode / Packet.decode / Packet.__init__, evaluated on every call made
by a generated workload; the oracle is the independent reference in vf.gen.
"""
import itertools

import icontract

from vf import gen
from vf.rec import Rec

PROPERTY = 'C01'
LEVEL = 'exploration'
RULE = ('seeded generation of (packet type 0..6) x (16 payload classes) x '
        '(every encode-call pattern over {binary,text} channel of length 1..4, '
        'sampled 5..6); a case is non-trivial when a contract was evaluated on '
        'it; distinct = distinct (type, payload class, call pattern) triples '
        'plus distinct (class, decoded-kind) pairs of the round trip; plus an '
        'ambient slice: one Packet object broadcast to a WebSocket and a '
        'polling session of the real servers in both orders with the '
        'contracts installed; every fourth shard with a replacement JSON '
        'module installed as Packet.json (the json= option)')
ASSUMPTIONS = ['reference encoder/decoder in vf/gen.py is a faithful reading '
               'of the statement', 'stdlib json and base64 are correct',
               'icontract evaluates the post-condition on every call']
REQUIRED = ['encode_post', 'decode_post', 'ctor_guard', 'roundtrip',
            'ambient_broadcasts']
SHARD_TIMEOUT = {'quick': 300, 'thorough': 1800}

_state = {'rec': None, 'case': None, 'installed': False}


class ContractBroken(Exception):
    pass


def _enc_post(self, b64, result):
    rec = _state['rec']
    if rec is None:
        return True
    rec.count('encode_post')
    try:
        want = gen.ref_encode(self.packet_type, self.data, b64)
    except TypeError:
        return True     # payload kind outside the API: statement is silent
    ok = type(result) is type(want) or (
        gen.is_binary(result) and gen.is_binary(want))
    ok = ok and (bytes(result) == want if gen.is_binary(want)
                 else result == want)
    if not ok:
        kind = 'binary' if gen.is_binary(self.data) else 'text'
        first = _state.get('calls') == []
        rec.viol('encode-%s-%s-%s' % (kind, 'b64' if b64 else 'raw',
                                       'first' if first else 'repeat'),
                 'encode(b64=%r) of type=%r data=%r returned %r, the v4 form '
                 'is %r (previous calls on this object: %r)' % (
                     b64, self.packet_type, _short(self.data), _short(result),
                     _short(want), _state.get('calls')), _state['case'])
    if _state.get('calls') is not None:
        _state['calls'].append(bool(b64))
    return True


def _dec_post(self, encoded_packet):
    rec = _state['rec']
    if rec is None:
        return True
    rec.count('decode_post')
    if self.binary and self.packet_type != 4:
        rec.viol('decode-binary-nonmessage',
                 'decode(%r) reports binary packet of type %r' % (
                     _short(encoded_packet), self.packet_type), _state['case'])
    return True


def _short(x):
    r = repr(x)
    return r if len(r) < 160 else r[:150] + '...(%d)' % len(r)


def install():
    if _state['installed']:
        return
    from engineio import packet
    packet.Packet.encode = icontract.ensure(
        _enc_post, error=ContractBroken)(packet.Packet.encode)
    packet.Packet.decode = icontract.ensure(
        _dec_post, error=ContractBroken)(packet.Packet.decode)
    _state['installed'] = True


PATTERNS = [p for n in range(1, 5)
            for p in itertools.product([False, True], repeat=n)]


def run_case(rec, ptype, cls, data, pattern):
    from engineio import packet
    case = {'type': ptype, 'class': cls, 'data': gen.jsonable(data),
            'pattern': list(pattern)}
    if packet.Packet.json is KwJson:
        case['kwjson'] = True
    _state['case'] = case
    rec.evaluations += 1
    # constructor contract
    if gen.is_binary(data) and ptype != packet.MESSAGE:
        rec.count('ctor_guard')
        try:
            packet.Packet(ptype, data)
        except ValueError:
            pass
        except Exception as e:
            rec.viol('ctor-wrong-exception', 'Packet(%r, binary) raised %r' % (
                ptype, e), case)
        else:
            rec.viol('ctor-accepts-binary-nonmessage',
                     'Packet(%r, %s) accepted binary data' % (
                         ptype, _short(data)), case)
        rec.key('ctor/%d/%s' % (ptype, cls))
        return
    pkt = packet.Packet(ptype, data)
    _state['calls'] = []
    for b64 in pattern:
        try:
            pkt.encode(b64=b64)
        except Exception as e:
            rec.viol('encode-raises', 'encode(b64=%r) of %r raised %r' % (
                b64, _short(data), e), case)
            break
    _state['calls'] = None
    rec.key('enc/%d/%s/%s' % (ptype, cls, ''.join(
        'T' if b else 'F' for b in pattern)))
    # round trip through both representations, decoded by the real decoder
    want = gen.expected_roundtrip(data)
    for b64 in ([False, True, 'bytearray'] if gen.is_binary(data)
                else [True]):
        wire = gen.ref_encode(ptype, data, bool(b64) and b64 is True)
        if b64 == 'bytearray':
            # a binary frame may be handed over as a bytearray
            wire = bytearray(wire)
        rec.count('roundtrip')
        try:
            back = packet.Packet(encoded_packet=wire)
        except Exception as e:
            rec.viol('decode-raises', 'decoding %s raised %r' % (
                _short(wire), e), case)
            continue
        wtype = 4 if gen.is_binary(data) else ptype
        if back.packet_type != wtype or type(back.packet_type) is not int:
            rec.viol('roundtrip-type', 'decoding %s gave type %r, sent %r' % (
                _short(wire), back.packet_type, wtype), case)
        if not gen.same(back.data, want):
            kind = 'binary' if gen.is_binary(data) else (
                'none' if data is None else 'json' if isinstance(
                    data, (dict, list)) else 'text')
            rec.viol('roundtrip-payload-' + kind,
                     'decoding %s gave %s, expected %s' % (
                         _short(wire), _short(back.data), _short(want)), case)
        if isinstance(back.data, (dict, list)):
            # the decoded value belongs to whoever decoded it: changing it
            # must not change what the same wire text decodes to next time
            rec.count('decode_after_mutation')
            if isinstance(back.data, dict):
                back.data['__changed_by_the_application__'] = [1]
                back.data.pop(next(iter(back.data)), None)
            else:
                back.data.append('__changed_by_the_application__')
                del back.data[0]
            try:
                again = packet.Packet(encoded_packet=wire)
                if not gen.same(again.data, want):
                    rec.viol('decode-depends-on-earlier-decodes', 'decoding '
                             '%s a second time, after the application '
                             'changed the value the first decode returned, '
                             'gave %s, expected %s' % (
                                 _short(wire), _short(again.data),
                                 _short(want)), case)
            except Exception as e:
                rec.viol('decode-raises', 'second decoding of %s raised %r' %
                         (_short(wire), e), case)
            back = packet.Packet(encoded_packet=wire)
        if back.binary != gen.is_binary(data):
            rec.viol('roundtrip-binary-flag', 'decoding %s gave binary=%r' % (
                _short(wire), back.binary), case)
        # a decoded packet re-encodes to the wire form of either channel
        for b in (b64, not b64):
            p2 = packet.Packet(encoded_packet=wire)
            _state['calls'] = []
            try:
                p2.encode(b64=b)
            except Exception as e:
                rec.viol('reencode-raises', 're-encoding decoded %s raised %r'
                         % (_short(wire), e), case)
            _state['calls'] = None
        rec.key('rt/%s/%s' % (cls, type(back.data).__name__))


def ambient(rec, seed, n):
    """One Packet object broadcast to a WebSocket session and a polling
    session in both orders, on the real servers, with the contracts on: each
    client must read the representation of its own channel kind."""
    from engineio import packet
    from vf import scen
    from vf.simbase import decode_payload
    rng = gen.mkrng('c01amb', seed)
    for i in range(n):
        srv = 'TA'[i % 2]
        order = (i // 2) % 2
        data = gen.rbytes(rng, 0, 40) if i % 3 else \
            {'k': gen.rtext(rng, 0, 5)}
        case = {'ambient': True, 'srv': srv, 'order': order,
                'data': gen.jsonable(data)}
        _state['case'] = case
        rec.evaluations += 1
        rec.count('ambient_broadcasts')
        sim = scen.make_sim(srv)
        try:
            hp = sim.open_polling()
            hw = sim.open_ws()
            pkt = packet.Packet(packet.MESSAGE, data=data)
            sids = [hp.sid, hw.sid] if order == 0 else [hw.sid, hp.sid]
            for sid in sids:
                sim.app_call('send_packet', sid, pkt)
                sim.quiesce()
            t = sim.poll(hp)
            sim.quiesce()
            want = gen.expected_roundtrip(data)
            try:
                got_poll = [d for tp, d in decode_payload(t.text())
                            if tp == 4]
            except Exception as e:
                got_poll = ['<undecodable polling body %r: %r>' % (
                    (t.body or b'')[:40], e)]
            frames = [f['frame'] for f in hw.ws.frames[1:]]
            want_frame = gen.ref_encode(4, data, False)
            if len(got_poll) != 1 or not gen.same(got_poll[0], want):
                rec.viol('ambient-polling-representation', 'polling client '
                         'read %r, expected %r (server %s, order %d)' % (
                             got_poll, want, srv, order), case)
            if frames != [want_frame]:
                rec.viol('ambient-websocket-representation', 'websocket '
                         'client got frames %r, expected %r (server %s, order '
                         '%d)' % (frames, [want_frame], srv, order), case)
            rec.key('ambient/%s/%d/%s' % (srv, order,
                                          type(data).__name__))
        finally:
            sim.teardown()


class KwJson:
    """A replacement JSON module of the kind applications install through
    the json= option: it honours the keyword arguments it is given (here it
    simply delegates to the standard library), unlike a stub that ignores
    them."""
    calls = 0

    @staticmethod
    def dumps(obj, **kw):
        import json
        KwJson.calls += 1
        return json.dumps(obj, **kw)

    @staticmethod
    def loads(text, **kw):
        # (the package's own module: its guard against huge integers is part
        # of what the reference decoder expects)
        from engineio import json
        KwJson.calls += 1
        return json.loads(text, **kw)


def plan(tier, seed):
    n = 16 if tier == 'thorough' else 8
    per = 500000 if tier == 'thorough' else 15000
    return [{'seed': seed, 'shard': i, 'n': per} for i in range(n)]


def run_shard(spec):
    install()
    rec = Rec()
    _state['rec'] = rec
    rng = gen.mkrng('c01', spec['seed'], spec['shard'])
    classes = gen.payload_classes()
    names = sorted(classes)
    if spec['shard'] == 1:
        ambient(rec, spec['seed'], 60)
    # every fourth shard: the packets use a replacement JSON module (the
    # json= option of the servers / clients sets Packet.json); the wire form
    # is the same
    from engineio import packet as _pk
    old_json = _pk.Packet.json
    if spec['shard'] % 4 == 2:
        _pk.Packet.json = KwJson
        rec.count('replacement_json_module_shards')
    # systematic part: every (type, class, pattern<=4) once per shard 0
    if spec['shard'] == 0:
        for ptype in range(7):
            for cls in names:
                for pat in PATTERNS:
                    run_case(rec, ptype, cls, classes[cls](rng), pat)
    for _ in range(spec['n']):
        ptype = rng.randrange(7)
        cls = rng.choice(names)
        if rng.random() < 0.2:
            pat = tuple(rng.random() < 0.5 for _ in range(rng.randint(5, 6)))
        else:
            pat = rng.choice(PATTERNS)
        data = classes[cls](rng)
        run_case(rec, ptype, cls, data, pat)
        if rec.evaluations % 997 == 1:
            rec.sample({'type': ptype, 'class': cls,
                        'data': gen.jsonable(data) if len(repr(data)) < 200
                        else '<%d chars>' % len(repr(data)),
                        'pattern': list(pat)})
    _state['rec'] = None
    if _pk.Packet.json is KwJson:
        rec.count('replacement_json_module_calls', KwJson.calls)
    _pk.Packet.json = old_json
    return rec.result()


def replay(case):
    install()
    rec = Rec()
    _state['rec'] = rec
    from engineio import packet as _pk
    if case.get('kwjson'):
        _pk.Packet.json = KwJson
    if case.get('ambient'):
        ambient(rec, 1, 8)
        _state['rec'] = None
        return rec.violations
    run_case(rec, case['type'], case['class'], gen.unjsonable(case['data']),
             tuple(case['pattern']))
    _state['rec'] = None
    return rec.violations

"""C02 - Payload framing: separator-exact, order preserving, bounded, total.

Monitors: post-conditions (icontract) on the real Payload.encode/decode checked
against a per-piece reference, and a logical-step budget enforced by a
sys.monitoring LINE counter on the decoder's own code objects (a hang shows up
as an exhausted step budget, never as a wall-clock verdict).
"""
import itertools
import sys
import urllib.parse

import icontract

from vf import gen
from vf.rec import Rec

PROPERTY = 'C02'
LEVEL = 'exploration'
RULE = ('(a) seeded packet lists of length 0..18 mixing text/JSON/binary, '
        'optionally pre-encoded for the binary channel; (b) EXHAUSTIVE: every '
        'string of length <= L over the 12-symbol alphabet '
        '{0 4 6 7 b d = " [ A U+001E ARABIC-3} (L=4 quick, L=6 thorough), each '
        'also as d=<quote> and d=<quote_plus>; (c) random strings up to 4096 '
        'over 40 symbols; limits 1,2,16,17. non-trivial = a decode/encode '
        'contract was evaluated; distinct = distinct (outcome, #pieces, '
        'first-failing-piece-kind, limit) signatures for strings, distinct '
        '(length, kinds) for lists')
ASSUMPTIONS = ['per-piece reference uses the real Packet decoder (C01 covers '
               'it) and stdlib urllib.parse.parse_qsl for the form variant',
               'step budget 200+60*len(input) python lines is far above any '
               'legitimate decode']
REQUIRED = ['encode_post', 'decode_piece_oracle', 'form_equiv', 'roundtrip',
            'over_limit', 'step_budget_armed']
SHARD_TIMEOUT = {'quick': 300, 'thorough': 3000}

ALPHA12 = ['0', '4', '6', '7', 'b', 'd', '=', '"', '[', 'A', gen.SEP, '٣']
ALPHA40 = ALPHA12 + list('123589cef{}]:,.-+/ \\\n%&x') + ['é', '😀', '\x00',
                                                          'Q', 'g']

_state = {'rec': None, 'case': None, 'installed': False, 'steps': 0,
          'budget': None}
TOOL = 4


class ContractBroken(Exception):
    pass


class StepBudgetExceeded(BaseException):
    pass


def _line_cb(code, line):
    if _state['budget'] is None:
        return
    _state['steps'] += 1
    if _state['steps'] > _state['budget']:
        _state['budget'] = None
        raise StepBudgetExceeded()


def _enc_post(self, jsonp_index, result):
    rec = _state['rec']
    if rec is None or jsonp_index is not None:
        return True
    rec.count('encode_post')
    try:
        want = gen.SEP.join(gen.ref_encode(p.packet_type, p.data, True)
                            for p in self.packets)
    except TypeError:
        return True
    if result != want:
        rec.viol('payload-encode', 'Payload.encode() gave %r, reference %r' % (
            _short(result), _short(want)), _state['case'])
    return True


def _short(x):
    r = repr(x)
    return r if len(r) < 200 else r[:190] + '...(%d)' % len(r)


def install():
    if _state['installed']:
        return
    from engineio import payload, packet, json as ejson
    payload.Payload.encode = icontract.ensure(
        _enc_post, error=ContractBroken)(payload.Payload.encode)
    mon = sys.monitoring
    mon.use_tool_id(TOOL, 'vf-c02')
    mon.register_callback(TOOL, mon.events.LINE, _line_cb)
    codes = [payload.Payload.decode, packet.Packet.decode,
             packet.Packet.__init__, ejson.loads, ejson._safe_int]
    n = 0
    for fn in codes:
        fn = getattr(fn, '__wrapped__', fn)
        code = getattr(fn, '__code__', None)
        if code is not None:
            mon.set_local_events(TOOL, code, mon.events.LINE)
            n += 1
            for c in code.co_consts:       # comprehensions / nested code
                if hasattr(c, 'co_code'):
                    mon.set_local_events(TOOL, c, mon.events.LINE)
    _state['armed'] = n
    _state['installed'] = True


def real_decode(s, limit=None):
    """Run the real decoder under the step budget. Returns
    ('ok', packets) | ('err', exc) | ('budget', None)."""
    from engineio import payload
    p = payload.Payload()
    if limit is not None:
        p.max_decode_packets = limit
    _state['steps'] = 0
    _state['budget'] = 200 + 60 * len(s)
    try:
        p.decode(s)
        out = ('ok', p.packets)
    except StepBudgetExceeded:
        out = ('budget', None)
    except Exception as e:
        out = ('err', e)
        if p.packets:
            out = ('leak', p.packets)
    finally:
        _state['budget'] = None
    return out


def form_value(s):
    """Reference reading of a body: returns (body, blank_form)."""
    if s.startswith('d='):
        for k, v in urllib.parse.parse_qsl(s, keep_blank_values=True):
            if k == 'd':
                return v, v == ''
        return '', True
    return s, False


def piece_oracle(s, limit):
    """('ok', [(type, data)]) or ('fail', reason) or ('dontcare', None)."""
    from engineio import packet
    body, blank = form_value(s)
    if blank:
        return ('dontcare', None)
    if len(body) == 0:
        return ('ok', [])
    pieces = body.split(gen.SEP)
    if len(pieces) > limit:
        return ('fail', 'over-limit')
    out = []
    for i, piece in enumerate(pieces):
        try:
            pk = packet.Packet(encoded_packet=piece)
        except Exception as e:
            return ('fail', 'piece-%s' % type(e).__name__)
        out.append((pk.packet_type, pk.data))
    return ('ok', out)


def check_string(rec, s, limit=16, forms=True):
    case = {'kind': 'string', 's': s, 'limit': limit}
    _state['case'] = case
    rec.evaluations += 1
    want = piece_oracle(s, limit)
    got = real_decode(s, limit)
    rec.count('decode_piece_oracle')
    rec.count('step_budget_armed', 1 if _state.get('armed') else 0)
    sig = None
    if got[0] == 'budget':
        rec.viol('decode-step-budget', 'decode(%s) did not finish within its '
                 'logical step budget' % _short(s), case)
    elif got[0] == 'leak':
        rec.viol('decode-partial-leak', 'decode(%s) failed but exposes %d '
                 'packets' % (_short(s), len(got[1])), case)
    elif want[0] == 'dontcare':
        sig = 'blankform'
    elif want[0] == 'fail':
        if want[1] == 'over-limit':
            rec.count('over_limit')
        if got[0] == 'ok':
            rec.viol('decode-accepts-' + want[1].split('-')[0],
                     'decode(%s) limit=%d returned %d packets although the '
                     'reference refuses the body (%s)' % (
                         _short(s), limit, len(got[1]), want[1]), case)
        sig = 'fail/%s' % want[1]
    else:
        if got[0] != 'ok':
            rec.viol('decode-refuses-valid', 'decode(%s) limit=%d raised %r '
                     'but every piece decodes and count<=limit' % (
                         _short(s), limit, got[1]), case)
        else:
            g = [(p.packet_type, p.data) for p in got[1]]
            if len(g) != len(want[1]) or not all(
                    a[0] == b[0] and gen.same(a[1], b[1])
                    for a, b in zip(g, want[1])):
                rec.viol('decode-differs', 'decode(%s) gave %s, pieces give %s'
                         % (_short(s), _short(g), _short(want[1])), case)
        sig = 'ok/%d' % len(want[1])
    if sig:
        rec.key('str/%s/%d/%d' % (sig, min(s.count(gen.SEP), 20), limit))
    # d= variants decode like the plain body
    if forms and len(s) > 0 and not s.startswith('d='):
        for qname, q in (('quote', urllib.parse.quote),
                         ('plus', urllib.parse.quote_plus)):
            fs = 'd=' + q(s, safe='')
            rec.count('form_equiv')
            g2 = real_decode(fs, limit)
            if g2[0] == 'budget':
                rec.viol('decode-step-budget', 'decode(%s) exceeded its step '
                         'budget' % _short(fs), case)
                continue
            a_ok, b_ok = got[0] == 'ok', g2[0] == 'ok'
            if a_ok != b_ok:
                rec.viol('form-variant-differs', 'decode(%s) -> %s but '
                         'decode(%s) -> %s' % (_short(s), got[0], _short(fs),
                                               g2[0]), case)
            elif a_ok:
                x = [(p.packet_type, p.data) for p in got[1]]
                y = [(p.packet_type, p.data) for p in g2[1]]
                if len(x) != len(y) or not all(
                        a[0] == b[0] and gen.same(a[1], b[1])
                        for a, b in zip(x, y)):
                    rec.viol('form-variant-differs', 'decode(%s)=%s but '
                             'decode(%s)=%s' % (_short(s), _short(x),
                                                _short(fs), _short(y)), case)


def check_list(rec, rng, n, pre_binary):
    from engineio import packet, payload
    classes = gen.payload_classes()
    names = [c for c in sorted(classes) if c != 'bytesbig']
    items = []
    for _ in range(n):
        cls = rng.choice(names)
        data = classes[cls](rng)
        ptype = 4 if gen.is_binary(data) else rng.randrange(7)
        items.append((ptype, cls, data))
    case = {'kind': 'list', 'items': [[t, c, gen.jsonable(d)]
                                      for t, c, d in items],
            'pre_binary': pre_binary}
    run_list(rec, items, pre_binary, case)
    return case


def run_list(rec, items, pre_binary, case):
    from engineio import packet, payload
    _state['case'] = case
    rec.evaluations += 1
    pkts = [packet.Packet(t, d) for t, c, d in items]
    if pre_binary:
        for p in pkts:
            p.encode(b64=False)     # e.g. already sent on a WebSocket
    try:
        enc = payload.Payload(packets=pkts).encode()
    except Exception as e:
        rec.viol('payload-encode-raises', 'Payload.encode raised %r' % (e,),
                 case)
        return
    rec.key('list/%d/%s/%s' % (len(items), pre_binary, ''.join(sorted(
        set(c[0] for t, c, d in items)))))
    if any(isinstance(d, str) and gen.SEP in d for t, c, d in items):
        return
    if not isinstance(enc, str):
        return
    rec.count('roundtrip')
    for limit in (16, 18, len(items), max(1, len(items) - 1)):
        got = real_decode(enc, limit)
        over = len(items) > limit
        if over:
            rec.count('over_limit')
            if got[0] == 'ok' and len(items) > 0:
                rec.viol('decode-accepts-over', 'a body of %d packets decoded '
                         'with limit %d' % (len(items), limit), case)
            continue
        if got[0] != 'ok':
            rec.viol('roundtrip-fails', 'decode(encode(list of %d)) -> %s %r'
                     % (len(items), got[0], got[1]), case)
            continue
        g = [(p.packet_type, p.data) for p in got[1]]
        w = [(4 if gen.is_binary(d) else t, gen.expected_roundtrip(d))
             for t, c, d in items]
        if len(g) != len(w) or not all(
                a[0] == b[0] and gen.same(a[1], b[1]) for a, b in zip(g, w)):
            rec.viol('roundtrip-differs', 'decode(encode(..)) gave %s expected '
                     '%s' % (_short(g), _short(w)), case)


def plan(tier, seed):
    L = 6 if tier == 'thorough' else 4
    shards = []
    # exhaustive strings, sharded by the first two symbols (144 prefixes)
    nsh = 16 if tier == 'thorough' else 6
    for i in range(nsh):
        shards.append({'kind': 'exh', 'L': L, 'part': i, 'parts': nsh,
                       'seed': seed})
    for i in range(8 if tier == 'thorough' else 2):
        shards.append({'kind': 'rand', 'seed': seed, 'shard': i,
                       'n': 60000 if tier == 'thorough' else 2500})
    return shards


def run_shard(spec):
    install()
    from engineio import payload
    rec = Rec()
    _state['rec'] = rec
    if payload.Payload.max_decode_packets != 16:
        rec.viol('default-limit', 'default max_decode_packets is %r, not 16' %
                 payload.Payload.max_decode_packets, {'kind': 'default'})
    if spec['kind'] == 'exh':
        idx = 0
        total = 0
        for n in range(0, spec['L'] + 1):
            for tup in itertools.product(ALPHA12, repeat=n):
                idx += 1
                if idx % spec['parts'] != spec['part']:
                    continue
                s = ''.join(tup)
                check_string(rec, s, 16, forms=(n <= 4 or idx % 7 == 0))
                if n <= 3:
                    for lim in (1, 2):
                        check_string(rec, s, lim, forms=False)
                total += 1
        rec.extra['exhaustive_strings'] = total
        rec.extra['exhaustive'] = True
        rec.extra['exhaustive_scope'] = [
            'all strings of length <= %d over %d symbols' % (spec['L'],
                                                             len(ALPHA12))]
        rec.sample({'string': 'b4\x1e٣"', 'limit': 16})
    else:
        rng = gen.mkrng('c02', spec['seed'], spec['shard'])
        for i in range(spec['n']):
            k = rng.random()
            if k < 0.45:
                n = rng.randint(0, 18)
                case = check_list(rec, rng, n, rng.random() < 0.3)
                if i % 499 == 0:
                    rec.sample(case)
            elif k < 0.8:
                ln = rng.choice([rng.randint(5, 40), rng.randint(40, 400),
                                 rng.randint(400, 4096)])
                s = ''.join(rng.choice(ALPHA40) for _ in range(ln))
                check_string(rec, s, rng.choice([16, 16, 1, 2, 17]))
            else:
                # many separators: around the limit
                cnt = rng.choice([15, 16, 17, 18, 1, 2, 3, 100, 1000])
                pieces = [rng.choice(['4', '4x', '6', '2probe', 'bQUJD',
                                      '4[1]', '3', '1', '7', ''])
                          for _ in range(cnt)]
                check_string(rec, gen.SEP.join(pieces),
                             rng.choice([16, 16, 1, 2, 17]))
        rec.extra['exhaustive'] = True
    if spec.get('shard', 0) == 0 or spec.get('part', 0) == 0:
        # form bodies with several fields: the body is the FIRST d field
        for s in ['d=4a&d=4b', 'd=4a&x=1', 'x=1&d=4a', 'd=4a%1E4b&d=6',
                  'd=&d=4a', 'd=4a&d=', 'd==', 'd=4%26x&d=5', 'dd=4a',
                  'd=4a;d=4b']:
            check_string(rec, s, 16, forms=False)
    _state['rec'] = None
    return rec.result()


def replay(case):
    install()
    rec = Rec()
    _state['rec'] = rec
    if case['kind'] == 'string':
        check_string(rec, case['s'], case['limit'])
    elif case['kind'] == 'list':
        items = [(t, c, gen.unjsonable(d)) for t, c, d in case['items']]
        run_list(rec, items, case['pre_binary'], case)
    _state['rec'] = None
    return rec.violations

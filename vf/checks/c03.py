"""C03 - server->client delivery: at most once, in order, one transport,
complete, across the upgrade.

Monitor: offline checker over the delivery history recorded by the reference
client at the package boundary (every poll response, every WebSocket frame)
against the application's send log; all messages carry unique ids, so a
delivery identifies the send it came from.
"""
from vf import gen, hist, scen
from vf.rec import Rec

PROPERTY = 'C03'
LEVEL = 'exploration'
RULE = ('seeded histories: 1..3 sessions x mode {polling, websocket-only, '
        'upgrade at a random point, failed upgrade then polling, failed then '
        'successful upgrade} x 2..14 sends (text/JSON/binary) and bursts of 17..40 x poll '
        'discipline {sequential, overlapping pair, late} x heartbeats '
        'answered; threaded server under seeded random cooperative schedules '
        '(+ yield at signalling operations), asyncio server with a seeded '
        'number of loop iterations between actions; thorough adds DFS over '
        'ALL cooperative schedules of "1 session, pending poll, 2 sends, full '
        'handshake"; plus a systematic sweep: a late polling GET injected at '
        'every scheduling step 0..25 after the handshake started x pending '
        'poll or not x client waits for its poll before UPGRADE or not x '
        'seeded yields at thread start / queue put. distinct = distinct (server, modes, delivery-shape '
        'signature: which transport carried each message and how sends fell '
        'relative to the handshake steps) signatures')
ASSUMPTIONS = ['"the upgrade has begun" = the handler\'s first read on the '
               'upgrade socket, observed at the driver boundary',
               'order is required between sends one of which returned before '
               'the other was called; overlapping polls leave cross-response '
               'order undefined']
REQUIRED = ['at_most_once', 'order_pairs', 'poll_returns_all', 'noop_only',
            'bursts_over_16',
            'completeness', 'late_poll_positions']
SHARD_TIMEOUT = {'quick': 400, 'thorough': 3000}

MODES = ['polling', 'websocket', 'upgrade', 'fail-then-poll', 'fail-then-ok']


def check_history(rec, R, case, V, drained=True):
    sim = R.sim
    sends = {x['id']: x for x in R.sends}
    seen = {}
    rec.count('at_most_once')
    for d in R.deliveries:
        if d['id'] is None:
            V('alien-message', 'client of session %d was handed a MESSAGE '
              'nobody sent: %r' % (d['s'], d['data']))
            continue
        if d.get('before_upgrade'):
            V('message-on-websocket-before-upgrade-completed', 'message %s '
              'was handed over on the upgrade socket of session %d although '
              'the client never sent UPGRADE on it' % (d['id'], d['s']))
        if d['id'] in seen:
            V('delivered-twice', 'message %s delivered twice (%s then %s)' % (
                d['id'], seen[d['id']]['via'], d['via']))
        seen[d['id']] = d
        snd = sends.get(d['id'])
        if snd is None:
            V('alien-message', 'message %s was never sent' % d['id'])
            continue
        if snd['s'] != d['s']:
            V('wrong-recipient', 'message %s sent to session %d reached '
              'session %d' % (d['id'], snd['s'], d['s']))
        if not gen.same(d['data'], gen.expected_roundtrip(snd['data'])):
            V('payload-changed', 'message %s arrived as %r' % (d['id'],
                                                               d['data']))
    # order
    for s in R.S:
        ds = [d for d in R.deliveries if d['s'] == s.n and d['id'] in sends]
        for i, x in enumerate(ds):
            for y in ds:
                if x is y:
                    continue
                before = x['c_end'] < y['c_start'] or (
                    x['chan'] == y['chan'] and (x['c_end'], x['pos']) <
                    (y['c_end'], y['pos']) and x['via'] == y['via'] and
                    (x['via'] == 'poll' or x['c_end'] < y['c_end']))
                if not before:
                    continue
                rec.count('order_pairs')
                sx, sy = sends[x['id']]['ticket'], sends[y['id']]['ticket']
                if sy.done and sy.c_end < sx.c_start:
                    V('out-of-order', 'session %d: %s (sent later) was '
                      'delivered before %s (%s pos %d vs %s pos %d)' % (
                          s.n, x['id'], y['id'], x['via'], x['pos'], y['via'],
                          y['pos']))
        # a lone poll returns everything queued
        for tk in s.polls:
            if not tk.done or tk.code != 200 or \
                    getattr(tk, 'packets', None) is None:
                continue
            if any(o is not tk and o.c_start < (tk.c_end or 1e18) and
                   (o.c_end or 1e18) > tk.c_start for o in s.polls):
                continue
            if any(w.accept_clk_safe() < tk.c_end and
                   getattr(w, 'handler_end_clk', 1e18) > tk.c_start
                   for w in s.up_all):
                continue        # overlaps an upgrade attempt
            if s.upgrade_completed:
                continue
            if s.opened_ws:
                continue
            rec.count('poll_returns_all')
            got = {d['id'] for d in R.deliveries
                   if d['chan'] == 'p%d' % id(tk)}
            earlier = {d['id'] for d in R.deliveries
                       if d['s'] == s.n and d['c_end'] < tk.c_start}
            for x in R.sends:
                if x['s'] == s.n and x['ticket'].done and \
                        x['ticket'].c_end < tk.c_start and \
                        x['id'] not in earlier and x['id'] not in got:
                    V('poll-left-queued-message', 'session %d: a lone poll '
                      'returned %r but %s had been sent before it started' % (
                          s.n, sorted(got), x['id']))
        # NOOP only after the upgrade began
        for ws in s.up_all:
            if ws.first_read_clk is None:
                continue
            begun = ws.first_read_clk
            ended = getattr(ws, 'handler_end_clk', None)
            for tk in s.polls:
                ent = tk.c_enter if tk.c_enter is not None else tk.c_start
                if not tk.done or ent < begun:
                    continue
                if ended is not None and ent > ended:
                    continue
                rec.count('noop_only')
                pk = getattr(tk, 'packets', None)
                if tk.code == 200 and pk is not None and \
                        any(p[0] == 4 for p in pk):
                    V('message-on-polling-after-upgrade-began', 'session %d: '
                      'a poll that started after the upgrade began carried %r'
                      % (s.n, pk))
    # completeness
    if drained:
        for x in R.sends:
            s = R.S[x['s']]
            if not x['ticket'].done or x['ticket'].exc is not None:
                if x['ticket'].exc is not None:
                    V('send-raised', 'send() raised %r' % (x['ticket'].exc,))
                continue
            if R.ended(s) or s.gone:
                continue
            rec.count('completeness')
            if x['id'] not in seen:
                V('message-lost' + ('-after-failed-upgrade'
                                    if s.up_state == 'failed' else ''),
                  'session %d (%s, upgrade state %r, transport %r): %s was '
                  'sent, the client kept reading, session still open, never '
                  'delivered; queue=%r' % (
                      s.n, s.mode, s.up_state, sim.transport_of(s.sid),
                      x['id'], (sim.snapshot().get(s.sid) or {}).get('queue')))


def _accept_clk_safe(self):
    return getattr(self, 'accept_clk', 1e18)


def drain(R):
    sim = R.sim
    for s in R.S:
        if not s.accepted or R.ended(s) or s.gone:
            continue
        if s.up_ws is not None and s.up_state in ('started', 'probed'):
            s.up_ws.close()
            s.up_state = 'failed'
            sim.quiesce()
        if s.mode == 'polling':
            for _ in range(8):
                tk = R.poll(s)
                sim.quiesce()
                if not tk.done:
                    break
    sim.quiesce()


def run_history(rec, case):
    from vf.simt import WsConnT
    from vf.sima import WsConnA
    WsConnT.accept_clk_safe = _accept_clk_safe
    WsConnA.accept_clk_safe = _accept_clk_safe
    rng = gen.mkrng('c03', case['seed'], case['i'])
    srv = case.get('srv') or rng.choice(['T', 'A'])
    if srv == 'A' and case.get('aio'):
        srv = case['aio']    # asyncio server behind the aiohttp / tornado adapter
        rec.count('histories_on_aiohttp_adapter')
    rec.evaluations += 1
    # the inbound size limit says nothing about what the server sends: a
    # share of the histories runs with a limit smaller than two queued
    # messages (the reference client's own frames are at most 6 characters)
    skw = {}
    if rng.random() < 0.3:
        skw['max_http_buffer_size'] = rng.choice([8, 16, 40])
        rec.count('small_inbound_limit_histories')
    sim = scen.make_sim(srv, real_ws_driver=bool(case.get('tws')) and
                        not case.get('wst'), server_kwargs=skw, policy='random',
                        seed=rng.randrange(1 << 30),
                        yield_prob=rng.choice([0.0, 0.2, 0.5]),
                        ws_close_mode=rng.choice(['none', 'raise']))
    R = hist.Runner(sim)

    def V(key, msg):
        rec.viol(key, msg + ' | server=%s config=%r%s history=%s' % (
            srv, skw, (' websocket write #%d times out' %
                       sim.ws_write_timeout_at) if getattr(
                           sim, 'ws_write_timeout_at', None) else '',
            R.witness(40)), case)
    try:
        modes = [rng.choice(MODES) for _ in range(rng.randint(1, 3))]
        plan = []
        for m in modes:
            s = R.open('websocket' if m == 'websocket' else 'polling',
                       autopoll=(m != 'websocket' and rng.random() < 0.6),
                       autopong=0 if rng.random() < 0.7 else None)
            if not s.accepted:
                V('open-failed', 'open failed: %r' % (
                    s.h.open_ticket.status,))
                return
            s.plan = m
            s.fail_left = 1 if m.startswith('fail') else 0
        if case.get('wst') and srv == 'T':
            # one WebSocket write of this history (after the opens) times
            # out, once
            sim.ws_write_timeout_at = getattr(sim, '_ws_writes', 0) + \
                gen.mkrng('c03wst', case['seed'], case['i']).randint(1, 12)
            rec.count('histories_with_a_write_timeout')
        nact = rng.randint(4, 22)

        def pause():
            if srv == 'T':
                k = rng.random()
                if k < 0.5:
                    sim.quiesce()
                elif k < 0.8:
                    sim.step(rng.randint(1, 4))
            else:
                k = rng.random()
                if k < 0.4:
                    sim.quiesce()
                else:
                    sim.step(rng.randint(1, 6))
        for _ in range(nact):
            s = rng.choice(R.S)
            k = rng.random()
            if k < 0.06:
                # a burst larger than any per-payload packet limit
                for _ in range(rng.choice([17, 18, 24, 40])):
                    R.send(s, rng.choice(['text', 'json', 'binary']))
                rec.count('bursts_over_16')
            elif k < 0.5:
                R.send(s, rng.choice(['text', 'json', 'binary']))
            elif k < 0.7 and s.mode == 'polling':
                if not s.autopoll or rng.random() < 0.15:
                    R.poll(s)
            elif k < 0.9 and s.plan in ('upgrade', 'fail-then-poll',
                                        'fail-then-ok') and \
                    s.mode == 'polling' and s.up_state in (None, 'failed'):
                if s.fail_left:
                    s.fail_left -= 1
                    how = rng.choice(['wrongprobe', 'close-before',
                                      'close-after-probe', 'wrong-upgrade'])
                    ws = R.upgrade_start(s, script='manual')
                    pause()
                    if how == 'wrongprobe':
                        ws.send(rng.choice(['2x', '4hi', '5', '2']))
                    elif how == 'close-before':
                        ws.close()
                    elif how == 'close-after-probe':
                        ws.send('2probe')
                        pause()
                        ws.close()
                    else:
                        ws.send('2probe')
                        pause()
                        ws.send(rng.choice(['4no', '2probe', '6']))
                    sim.quiesce()
                    s.up_state = 'failed'
                elif s.plan != 'fail-then-poll':
                    R.upgrade_start(s, script=rng.choice(
                        ['correct', 'correct', 'eager']))
            elif k < 0.95:
                R.advance(rng.choice([1, 5, 25]))
            pause()
        sim.quiesce()
        drain(R)
        check_history(rec, R, case, V)
        if srv == 'T':
            rec.count('schedule_choices', len(sim.sched.trace))
        # delivery-shape signature
        shape = []
        for s in R.S:
            ds = [d for d in R.deliveries if d['s'] == s.n]
            shape.append('%s:%s' % (s.plan[:4], ''.join(
                'w' if d['via'] == 'ws' else 'p' for d in ds)))
        rec.key('%s/%s' % (srv, '|'.join(shape)))
        if rec.evaluations % 301 == 1:
            rec.sample({'server': srv, 'modes': modes,
                        'history': R.witness(30),
                        'deliveries': [(d['id'], d['via']) for d in
                                       R.deliveries][:30]})
    finally:
        sim.teardown()


def dfs_small(rec, case):
    """All cooperative schedules of: 1 session, pending poll, 2 sends, full
    probe handshake (threaded server)."""
    from vf.simt import WsConnT
    WsConnT.accept_clk_safe = _accept_clk_safe
    prefix = []
    leaves = 0
    shapes = set()
    exhausted = False
    limit = case['limit']
    while leaves < limit:
        sim = scen.make_sim('T', policy='fifo', prefix=prefix,
                            yield_prob=1.0 if case.get('yields') else 0.0)
        sim.sched.yield_budget = case.get('yields') or 0
        R = hist.Runner(sim)

        def V(key, msg):
            rec.viol(key, msg + ' | DFS schedule prefix=%r history=%s' % (
                prefix, R.witness(30)), dict(case, prefix=list(prefix)))
        try:
            s = R.open('polling')
            R.poll(s)
            sim.quiesce()
            n0 = len(sim.sched.trace)
            R.send(s, 'text')
            R.upgrade_start(s, case.get('script', 'correct'))
            if case.get('latepoll'):
                R.poll(s)
            R.send(s, case.get('kind2', 'binary'))
            sim.quiesce()
            drain(R)
            rec.evaluations += 1
            check_history(rec, R, case, V)
            trace = list(sim.sched.trace)
            shapes.add(''.join('w' if d['via'] == 'ws' else 'p'
                               for d in R.deliveries) + '/' + ','.join(
                d['id'] for d in R.deliveries))
        finally:
            sim.teardown()
        leaves += 1
        j = len(trace) - 1
        while j >= 0 and trace[j][1] + 1 >= trace[j][0]:
            j -= 1
        if j < 0:
            exhausted = True
            break
        prefix = [c for n, c in trace[:j]] + [trace[j][1] + 1]
    rec.extra['dfs_schedules'] = leaves
    rec.extra['dfs_tree_exhausted'] = exhausted
    rec.extra['dfs_trees'] = ['%s late=%s yields<=%s: %d schedules, exhausted=%s' % (
        case.get('script', 'correct'), case.get('latepoll', False),
        case.get('yields', 0), leaves, exhausted)]
    rec.extra['dfs_delivery_outcomes'] = sorted(shapes)
    for sh in shapes:
        rec.key('dfs/' + sh)
    rec.count('dfs_leaves', leaves)


def late_poll(rec, case):
    """Systematic: a polling GET injected k scheduling steps after the
    handshake started (every position relative to probe read / NOOP queued /
    UPGRADE read / writer started), then sends; threaded server additionally
    under seeded yields at thread start / queue put."""
    from vf.simt import WsConnT
    from vf.sima import WsConnA
    WsConnT.accept_clk_safe = _accept_clk_safe
    WsConnA.accept_clk_safe = _accept_clk_safe
    srv, k, seed, script = case['srv'], case['k'], case['sched'], \
        case['script']
    rec.evaluations += 1
    sim = scen.make_sim(srv, policy='random' if seed else 'fifo', seed=seed,
                        yield_prob=0.5 if seed else 0.0)
    R = hist.Runner(sim)

    def V(key, msg):
        rec.viol(key, msg + ' | LATE-POLL server=%s k=%d sched=%d script=%s '
                 'history=%s' % (srv, k, seed, script, R.witness(20)), case)
    try:
        s = R.open('polling')
        if case['pending']:
            R.poll(s)
        sim.quiesce()
        R.upgrade_start(s, script)
        sim.step(k)
        R.poll(s)
        sim.step(case['k2'])
        R.send(s, 'text')
        sim.quiesce()
        R.send(s, 'binary')
        sim.quiesce()
        R.poll(s)
        sim.quiesce()
        drain(R)
        rec.count('late_poll_positions')
        check_history(rec, R, case, V)
        rec.key('late/%s/%d/%s/%s' % (srv, k, script, ''.join(
            'w' if d['via'] == 'ws' else 'p' for d in R.deliveries)))
    finally:
        sim.teardown()


def overlapping_opens(rec, case):
    """Sessions whose opens overlap (slow / awaiting connect handlers): each
    client reads, with the sid of its own OPEN packet, exactly the message
    the application sent to the session its connect handler was given - never
    another session's. (The scenario is C11's run_overlap; the delivery
    oracle in it is this property's last sentence.)"""
    from vf.checks import c11
    rec.count('overlapping_open_deliveries')
    c11.run_overlap(rec, case['overlap'])


def run_cancelled_senders(rec, case):
    """asyncio engines: application tasks that call send() and are cancelled
    a few loop iterations later (a wait_for() time-out around the call, a
    cancelled request handler). Whether such a message goes out is open; it
    never goes out twice, and the sends around it are untouched."""
    from vf.simbase import decode_payload
    srv = case['cancel']
    rec.evaluations += 1
    rec.count('cancelled_sender_scenarios')
    rec.key('cancel/' + srv)
    sim = scen.make_sim(srv)
    try:
        h = sim.open_polling()
        want = []
        for k in range(12):
            sim.app_call('send', h.sid, 'before%d' % k)
            t = sim.app_call('send', h.sid, 'maybe%d' % k)
            sim.step(k % 5)
            if t.task is not None and not t.task.done():
                t.task.cancel()
                rec.count('senders_cancelled_in_flight')
            sim.quiesce()
            want.append('before%d' % k)
        got = []
        for _ in range(8):
            p = sim.poll(h)
            sim.quiesce()
            if not p.done or p.code != 200:
                break
            pk = decode_payload(p.text())
            got += [d for tp, d in pk if tp == 4]
            if not any(tp == 4 for tp, d in pk):
                break
        dup = sorted({g for g in got if got.count(g) > 1})
        if dup:
            rec.viol('message-duplicated', 'messages delivered more than '
                     'once after their senders were cancelled: %r | server=%s'
                     % (dup, srv), case)
        if [g for g in got if g.startswith('before')] != want:
            rec.viol('message-lost', 'the sends around the cancelled ones '
                     'arrived as %r | server=%s' % (
                         [g for g in got if g.startswith('before')], srv),
                     case)
    finally:
        sim.teardown()


def dispatch(rec, case):
    if case.get('cancel'):
        run_cancelled_senders(rec, case)
    elif case.get('overlap'):
        overlapping_opens(rec, case)
    elif case.get('dfs'):
        dfs_small(rec, case)
    elif case.get('late'):
        late_poll(rec, case)
    else:
        run_history(rec, case)


def plan(tier, seed):
    n = 16
    per = 15000 if tier == 'thorough' else 600
    shards = [{'seed': seed, 'shard': s, 'n': per} for s in range(n)]
    late = []
    for srv in 'TA':
        for k in range(0, 26):
            for k2 in (0, 1, 3):
                for script in ('correct', 'eager'):
                    for pending in (True, False):
                        seeds = [0] if srv == 'A' else (
                            [0] + [seed * 100 + i for i in range(
                                1, 5 if tier == 'quick' else 40)])
                        for sd in seeds:
                            late.append({'late': True, 'srv': srv, 'k': k,
                                         'k2': k2, 'script': script,
                                         'pending': pending, 'sched': sd})
    for srv in 'TA':
        for outs in ([None, None], [None, None, None], [None, False, None],
                     [True, None]):
            late.append({'overlap': {'srv': srv, 'n': len(outs),
                                     'outcomes': outs}})
    for srv in 'AHN':
        late.append({'cancel': srv})
    for i in range(4):
        shards.append({'lates': late[i::4]})
    if tier == 'thorough':
        shards.append({'dfs': True, 'limit': 200000, 'kind2': 'binary'})
        shards.append({'dfs': True, 'limit': 200000, 'kind2': 'json'})
        for script in ('correct', 'eager'):
            for late in (False, True):
                for y in (1, 2):
                    shards.append({'dfs': True, 'limit': 150000,
                                   'kind2': 'binary', 'script': script,
                                   'latepoll': late, 'yields': y})
    else:
        shards.append({'dfs': True, 'limit': 300, 'kind2': 'binary'})
        shards.append({'dfs': True, 'limit': 1500, 'kind2': 'binary',
                       'script': 'eager', 'latepoll': True, 'yields': 1})
    return shards


def run_shard(spec):
    rec = Rec()
    if spec.get('lates'):
        scen.run_cases(rec, spec['lates'], dispatch)
    elif spec.get('dfs'):
        scen.run_cases(rec, [spec], dispatch)
    else:
        cases = [{'seed': spec['seed'], 'i': spec['shard'] * 1000000 + k}
                 for k in range(spec['n'])]
        for c in cases[::2]:
            c['aio'] = 'H'
        for c in cases[2::4]:
            c['aio'] = 'N'     # ... and behind the tornado adapter
        for c in cases[1::3]:
            c['tws'] = True    # threaded server: the real simple_websocket driver
        for c in cases[1::4]:
            c['wst'] = True
        scen.run_cases(rec, cases, dispatch)
    return rec.result()


replay = scen.simple_replay(dispatch)

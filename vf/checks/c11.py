"""C11 - OPEN handshake reflects configuration and honours the connect handler.

Monitor: reference computed from the statement, evaluated on the response of
every open of an exhaustive configuration grid on both real servers;
"upgrade would actually be accepted" is decided by performing the probe
handshake whenever websocket is advertised; rejected ids are probed through
every entry point afterwards.
"""
import itertools
import json

from vf import gen, jsonp, scen
from vf.rec import Rec
from vf.simbase import decode_payload, decode_packet

PROPERTY = 'C11'
LEVEL = 'exploration'
RULE = ('cross product ping_interval(8, incl. fractional and (interval,grace)) '
        'x ping_timeout(4) x max_http_buffer_size(3) x allow_upgrades(2) x '
        'transports(3) x cookie(6 forms) x connect-handler outcome(18: None, True, False, numbers incl. 1 and 1.0 which equal True, strings, containers, raise) x open '
        'kind(polling, websocket, JSONP) x server(threaded, asyncio) [+ '
        'websocket driver unavailable]; in every other cell the connect handler '
        'also sends a message to the new sid; thorough = the whole grid, quick = '
        'seeded sample of it plus all cells differing from the default in one '
        'coordinate. distinct = distinct cells; every executed cell evaluates '
        'the OPEN/401 reference so every cell is non-trivial; third server = '
        'asyncio behind the real aiohttp adapter; plus sequences of 3..6 '
        'opens over mixed transports on one server, overlapping opens, '
        'cookie sequences')
ASSUMPTIONS = ['cookie oracle applies to polling/JSONP opens (a WebSocket open '
               'has no response-header channel in the package)',
               'advertised times compared with float(config)*1000 at |d|<1 ms',
               'the probe handshake is attempted only when '
               'max_http_buffer_size >= 6 (the probe frame itself)']
REQUIRED = ['open_reference', 'upgrade_probe', 'reject_followups', 'cookie',
            'greeting_after_open', 'overlapping_opens', 'cookie_sequences']
SHARD_TIMEOUT = {'quick': 300, 'thorough': 3000}

PI = [25, 1, 0.5, 1.5, 0.25, [25, 5], [1.5, 0.7], [0.2, 0.1]]
PT = [20, 1, 0.25, 0.4]
MB = [1, 100, 10 ** 6]
AU = [True, False]
TR = [None, 'polling', 'websocket']
CK = ['none', 'str', 'dict', 'flagT', 'flagF', 'callable']
OUT = [None, True, False, 0, '', 'no', {'e': 1}, [1], 'raise',
       1, 1.0, 2, -1, 0.0, [], {}, 'True', 'raise-type', 'raise-base']
KIND = ['polling', 'websocket', 'jsonp']
SRV = ['T', 'A', 'H', 'N']  # H / N: the asyncio server behind the real aiohttp / tornado adapter
DEFAULT = (25, 20, 10 ** 6, True, None, 'none', None, 'polling')


def cookie_cfg(name):
    if name == 'none':
        return None, None
    if name == 'str':
        return 'io', {'name': 'io', 'path': '/', 'SameSite': 'Lax'}
    if name == 'dict':
        c = {'name': 'sess', 'path': '/x', 'SameSite': 'Strict'}
        return c, dict(c)
    if name == 'flagT':
        c = {'name': 'k', 'Secure': True, 'path': '/'}
        return c, dict(c)
    if name == 'flagF':
        c = {'name': 'k', 'Secure': False, 'HttpOnly': True, 'path': '/'}
        return c, {'name': 'k', 'HttpOnly': True, 'path': '/'}
    c = {'name': 'k', 'Max-Age': lambda: '77', 'path': '/'}
    return c, {'name': 'k', 'Max-Age': '77', 'path': '/'}


def cells(tier, seed):
    allc = list(itertools.product(
        range(len(PI)), range(len(PT)), range(len(MB)), range(2),
        range(3), range(len(CK)), range(len(OUT)), range(3),
        range(len(SRV))))
    return allc


def run_cell(rec, cell):
    ipi, ipt, imb, iau, itr, ick, iout, ikind, isrv = cell[:9]
    ws_avail = cell[9] if len(cell) > 9 else True
    pi, pt, mb = PI[ipi], PT[ipt], MB[imb]
    au, tr, ck, out = AU[iau], TR[itr], CK[ick], OUT[iout]
    okind, srv = KIND[ikind], SRV[isrv]
    case = {'cell': list(cell)}
    rec.evaluations += 1
    rec.key('cell/' + ','.join(str(c) for c in cell))
    cookie, cookie_expect = cookie_cfg(ck)
    kw = {'ping_interval': tuple(pi) if isinstance(pi, list) else pi,
          'ping_timeout': pt, 'max_http_buffer_size': mb,
          'allow_upgrades': au, 'cookie': cookie}
    if tr is not None:
        kw['transports'] = tr
    # every other cell: the connect handler greets the client with a message
    # sent to the new sid (it must follow the OPEN packet)
    greet = (sum(cell[:9]) % 2 == 1)
    hcfg = {'connect': [out]}
    if greet:
        hcfg['connect_send'] = 'welcome'
    sim = scen.make_sim(srv, real_ws_driver=sum(cell[:9]) % 2 == 0,
                        server_kwargs=kw, handler_cfg=hcfg,
                        websocket_available=ws_avail)
    try:
        _cell(rec, sim, case, pi, pt, mb, au, tr, cookie_expect, out, okind,
              ws_avail, srv)
    finally:
        sim.teardown()


def V(rec, key, msg, case):
    rec.viol(key, msg + ' [cell %s]' % describe(case['cell']), case)


def describe(cell):
    ipi, ipt, imb, iau, itr, ick, iout, ikind, isrv = cell[:9]
    return ('pi=%r pt=%r max=%r allow_upgrades=%r transports=%r cookie=%s '
            'handler=%r open=%s server=%s ws_available=%s' % (
                PI[ipi], PT[ipt], MB[imb], AU[iau], TR[itr], CK[ick],
                OUT[iout], KIND[ikind], SRV[isrv],
                cell[9] if len(cell) > 9 else True))


def _cell(rec, sim, case, pi, pt, mb, au, tr, cookie_expect, out, okind,
          ws_avail, srv):
    allowed = ['polling', 'websocket'] if tr is None else [tr]
    open_transport = 'websocket' if okind == 'websocket' else 'polling'
    extra = {'j': '3'} if okind == 'jsonp' else {}
    if sum(case['cell'][:9]) % 3 == 0:
        # an application parameter whose (escaped) value looks like more
        # parameters: it is ONE value, whatever the gateway does to the query
        # string on the way in
        rec.count('opens_with_escaped_parameter')
        extra['next'] = '/rooms?name=lobby&sid=4711&EIO=3&transport=foo&j=x'
    if okind == 'websocket':
        h = sim.open_ws(extra)
    else:
        h = sim.open_polling(extra)
    t = h.open_ticket
    rec.count('open_reference')
    if t.exc is not None and not (okind == 'websocket' and not ws_avail):
        V(rec, 'open-raises-' + type(t.exc).__name__,
          'open request raised %r' % (t.exc,), case)
        return
    connects = [e for e in sim.events if e['ev'] == 'connect']
    if getattr(t, 'late_refusal', False) and (
            open_transport not in allowed or
            not (out is None or out is True)):
        # tornado had answered the handshake 101 before the package saw the
        # request: the 400 / 401 (and the value it carries) could not be
        # sent, the connection was closed instead. The rest of the rejection
        # is judged below with the answer the package meant to give
        rec.count('late_refusals_on_tornado')
        V(rec, 'tornado-websocket-refusal-status', 'open over WebSocket that '
          'must be answered %s was answered %r on the wire; the package then '
          'meant %r, connection closed=%r' % (
              '400' if open_transport not in allowed else '401',
              t.wire_status, t.status, h.ws.server_closed), case)
    # transport not allowed: must be refused, nothing created
    if open_transport not in allowed:
        if (t.code != 400 and not (okind == 'websocket' and srv == 'A' and
                                   h.ws.server_closed and not h.ws.accepted)) \
                or connects or sim.table_sids():
            V(rec, 'open-disallowed-transport', 'open on a transport the '
              'server does not allow: status %r, %d connect events, table %r'
              % (t.status, len(connects), sim.table_sids()), case)
        return
    if okind == 'websocket' and not ws_avail:
        # websocket not available in this deployment: must not be accepted
        # as a session that works; any refusal is fine
        return
    accept = out is None or out is True
    if len(connects) != 1:
        V(rec, 'connect-count', 'connect handler ran %d times for one open' %
          len(connects), case)
        return
    hsid = connects[0]['sid']
    if not accept:
        rec.count('reject_followups')
        want_body = out if (out and out not in ('raise', 'raise-type',
                                                'raise-base')) \
            else None
        if okind == 'websocket' and srv == 'A':
            ws = h.ws
            if ws.accepted or not ws.server_closed:
                V(rec, 'reject-not-401', 'rejected websocket open: accepted=%r '
                  'closed=%r' % (ws.accepted, ws.server_closed), case)
            elif want_body is not None:
                try:
                    got = json.loads(ws.close_reason)
                except Exception:
                    got = ws.close_reason
                if got != want_body:
                    V(rec, 'reject-value', 'close reason %r does not carry the '
                      'handler value %r' % (ws.close_reason, want_body), case)
        else:
            if t.code != 401:
                V(rec, 'reject-not-401', 'connect handler outcome %r answered '
                  'with %r' % (out, t.status), case)
            elif want_body is not None:
                try:
                    got = json.loads(t.text())
                except Exception:
                    got = t.body
                if got != want_body:
                    V(rec, 'reject-value', '401 body %r does not carry the '
                      'handler value %r' % (t.body, want_body), case)
            if t.header('Set-Cookie'):
                V(rec, 'reject-cookie', 'session cookie set on a rejected '
                  'open', case)
            if okind == 'websocket' and h.ws.accepted and h.ws.frames:
                V(rec, 'reject-frames', 'frames sent on a rejected websocket',
                  case)
        if sim.table_sids():
            V(rec, 'reject-table', 'rejected session left in the table: %r' %
              sim.table_sids(), case)
        # the id never becomes addressable
        fake = type('H', (), {'sid': hsid})()
        n0 = len(sim.events)
        p = sim.poll(fake)
        sim.quiesce()
        q = sim.post(fake, '4x')
        sim.quiesce()
        ws2, t2 = sim.upgrade_ws(fake)
        sim.quiesce()
        a = sim.app_call('send', hsid, 'm')
        sim.quiesce()
        for name, tk in (('poll', p), ('post', q)):
            if not tk.done or tk.code != 400:
                V(rec, 'reject-addressable', '%s naming a rejected sid: done=%r'
                  ' status=%r exc=%r' % (name, tk.done, tk.status, tk.exc),
                  case)
        if ws2.accepted:
            V(rec, 'reject-addressable', 'upgrade of a rejected sid accepted',
              case)
        if not a.done or a.exc is not None:
            V(rec, 'reject-send', 'send() to a rejected sid: done=%r exc=%r' %
              (a.done, a.exc), case)
        try:
            sim.session_get(hsid)
            V(rec, 'reject-addressable', 'get_session works on a rejected sid',
              case)
        except KeyError:
            pass
        base = pi[0] if isinstance(pi, list) else pi
        sim.advance(base + pt + 1)
        if len(sim.events) != n0:
            V(rec, 'reject-events', 'events after a rejected connect: %r' %
              sim.events[n0:], case)
        if sim.table_sids():
            V(rec, 'reject-table', 'table not empty after rejection: %r' %
              sim.table_sids(), case)
        return
    # accepted: OPEN packet
    pkts = None
    try:
        if okind == 'websocket':
            if not h.ws.accepted or not h.ws.frames:
                raise ValueError('no frame / not accepted (status %r)' %
                                 (t.status,))
            pkts = [decode_packet(h.ws.frames[0]['frame'])]
        elif okind == 'jsonp':
            idx, s, _ = jsonp.parse(t.text())
            if idx != 3:
                raise ValueError('jsonp index %r' % idx)
            pkts = decode_payload(s)
        else:
            pkts = decode_payload(t.text())
        if okind != 'websocket' and t.code != 200:
            raise ValueError('status %r' % (t.status,))
    except Exception as e:
        V(rec, 'open-malformed', 'accepted open answered with status=%r '
          'body=%r: %s' % (t.status, (t.body or b'')[:120], e), case)
        return
    if not pkts or pkts[0][0] != 0 or not isinstance(pkts[0][1], dict):
        V(rec, 'open-first-packet', 'first packet is %r, not OPEN' % (
            pkts[:1],), case)
        return
    o = pkts[0][1]
    if sim.cfg.get('connect_send'):
        rec.count('greeting_after_open')
        rest = pkts[1:] if okind != 'websocket' else [
            decode_packet(f['frame']) for f in h.ws.frames[1:]]
        if (4, 'welcome') not in rest:
            V(rec, 'greeting-lost', 'the message sent by the connect handler does '
              'not follow the OPEN packet: %r' % (rest[:3],), case)
    if o.get('sid') != hsid:
        V(rec, 'open-sid', 'OPEN sid %r != connect handler sid %r' % (
            o.get('sid'), hsid), case)
    if sim.table_sids() != [hsid]:
        V(rec, 'open-one-session', 'table after one open: %r' %
          sim.table_sids(), case)
    base, grace = (pi if isinstance(pi, list) else (pi, 0))
    want_pi = float(base + grace) * 1000
    want_pt = float(pt) * 1000
    gpi, gpt = o.get('pingInterval'), o.get('pingTimeout')
    if not isinstance(gpi, int) or isinstance(gpi, bool) or \
            abs(gpi - want_pi) >= 1:
        V(rec, 'open-pingInterval', 'pingInterval %r advertised for '
          'interval+grace = %r s' % (gpi, base + grace), case)
    if not isinstance(gpt, int) or isinstance(gpt, bool) or \
            abs(gpt - want_pt) >= 1:
        V(rec, 'open-pingTimeout', 'pingTimeout %r advertised for %r s' % (
            gpt, pt), case)
    if o.get('maxPayload') != mb:
        V(rec, 'open-maxPayload', 'maxPayload %r, configured %r' % (
            o.get('maxPayload'), mb), case)
    ups = o.get('upgrades')
    if not isinstance(ups, list) or any(u != 'websocket' for u in ups):
        V(rec, 'open-upgrades-form', 'upgrades = %r' % (ups,), case)
        ups = []
    # cookie (polling and JSONP opens)
    if okind != 'websocket':
        rec.count('cookie')
        cks = t.header_all('Set-Cookie')
        if cookie_expect is None:
            if cks:
                V(rec, 'cookie-unconfigured', 'Set-Cookie %r without cookie '
                  'configuration' % (cks,), case)
        elif len(cks) != 1:
            V(rec, 'cookie-missing', 'configured cookie: Set-Cookie headers %r'
              % (cks,), case)
        else:
            parts = cks[0].split('; ')
            name, _, val = parts[0].partition('=')
            attrs = {}
            for p in parts[1:]:
                k, eq, v = p.partition('=')
                attrs[k] = v if eq else True
            want = dict(cookie_expect)
            wname = want.pop('name')
            if name != wname or val != hsid or attrs != want:
                V(rec, 'cookie-content', 'Set-Cookie %r, expected name %r value'
                  ' %r attributes %r' % (cks[0], wname, hsid, want), case)
    # advertised => actually accepted
    if okind == 'websocket':
        if ups:
            V(rec, 'upgrades-on-websocket', 'a WebSocket open advertises '
              'upgrades %r' % (ups,), case)
        if sim.transport_of(hsid) != 'websocket':
            V(rec, 'ws-open-mode', 'websocket open but transport() = %r' %
              sim.transport_of(hsid), case)
    elif 'websocket' in ups:
        would = au and 'websocket' in allowed and ws_avail
        if mb >= 6:
            rec.count('upgrade_probe')
            h.sid = hsid
            ws, ok = sim.do_upgrade(h)
            if not ok or sim.transport_of(hsid) != 'websocket':
                V(rec, 'advertised-not-accepted', 'OPEN advertises websocket '
                  'but the probe handshake did not complete (accepted=%r '
                  'frames=%r status=%r exc=%r)' % (
                      ws.accepted, ws.texts()[:3], ws.ticket.status,
                      ws.ticket.exc), case)
        elif not would:
            V(rec, 'advertised-not-accepted', 'OPEN advertises websocket with '
              'allow_upgrades=%r transports=%r available=%r' % (
                  au, tr, ws_avail), case)
    if rec.evaluations % 2003 == 1:
        rec.sample({'cell': describe(case['cell']), 'open': o})


def run_overlap(rec, spec):
    """Two (or three) open requests overlapping: each next one is processed
    while the previous client's connect handler is still running (a slow /
    awaiting handler). Every client must be told ITS OWN sid - the one its
    connect handler received - and read only its own greeting."""
    from vf.simbase import decode_payload
    srv, n, outcomes = spec['srv'], spec['n'], spec['outcomes']
    case = {'overlap': dict(spec)}
    rec.evaluations += 1
    rec.count('overlapping_opens')
    rec.key('overlap/%s/%d/%s' % (srv, n, outcomes))
    sim = scen.make_sim(srv, handler_cfg={
        'connect': list(outcomes), 'suspend': {'connect': 0.5}},
        async_handlers_coro=True)

    def Vv(key, msg):
        rec.viol(key, msg + ' | OVERLAPPING OPENS server=%s n=%d handler '
                 'outcomes=%r' % (srv, n, outcomes), case)
    try:
        tickets = []
        for k in range(n):
            tickets.append(sim.request('GET', {'transport': 'polling',
                                               'EIO': '4'}, {}))
            sim.quiesce()
            sim.advance(0.125)
        sim.advance(2)
        sim.quiesce()
        entered = [e['sid'] for e in sim.events
                   if e['ev'] == 'connect-entered']
        if len(entered) != n:
            Vv('connect-count', 'connect handler entered %d times for %d '
               'open requests' % (len(entered), n))
            return
        told = []
        for k, t in enumerate(tickets):
            accept = outcomes[k] is None or outcomes[k] is True
            if not t.done:
                Vv('open-hangs', 'open request %d did not complete' % k)
                return
            if not accept:
                if t.code != 401:
                    Vv('reject-not-401', 'open %d rejected by its handler '
                       'answered %r' % (k, t.status))
                told.append(None)
                continue
            try:
                pk = decode_payload(t.text())
                told.append(pk[0][1]['sid'] if pk[0][0] == 0 else '?')
            except Exception:
                told.append('?')
            if told[-1] != entered[k]:
                Vv('open-sid', 'client %d was told sid %r in its OPEN packet, '
                   'its connect handler was given %r (all handler sids: %r)'
                   % (k, told[-1], entered[k], entered))
        # each accepted client reads only what was sent to its own session
        for k, sid in enumerate(told):
            if sid in (None, '?'):
                continue
            sim.app_call('send', entered[k], 'for-%d' % k)
        sim.quiesce()
        for k, sid in enumerate(told):
            if sid in (None, '?'):
                continue
            fake = type('H', (), {'sid': sid})()
            p = sim.poll(fake)
            sim.quiesce()
            got = []
            if p.done and p.code == 200:
                got = [d for tp, d in decode_payload(p.text()) if tp == 4]
            if got != ['for-%d' % k]:
                Vv('open-sid-delivery', 'client %d polling with the sid of '
                   'its OPEN packet read %r, expected its own greeting' % (
                       k, got))
    finally:
        sim.teardown()


def run_open_sequence(rec, spec):
    """Several opens on ONE server over a mix of transports (polling, JSONP,
    WebSocket): every OPEN packet is judged on its own - its sid is the one
    its connect handler got, its timing / maxPayload are the configured ones
    and its upgrades list fits the transport of THAT request (none on a
    WebSocket connection; 'websocket' on polling only if the probe handshake
    then completes)."""
    from vf.simbase import decode_payload, decode_packet
    srv, kinds, au = spec['srv'], spec['kinds'], spec['au']
    case = {'openseq': dict(spec)}
    rec.evaluations += 1
    rec.count('open_sequences')
    rec.key('openseq/%s/%s/%s' % (srv, au, ','.join(kinds)))
    pi, pt, mb = 7, 3, 5000
    sim = scen.make_sim(srv, server_kwargs={
        'ping_interval': pi, 'ping_timeout': pt, 'max_http_buffer_size': mb,
        'allow_upgrades': au},
        websocket_available=not spec.get('nodrv'))

    def Vv(key, msg):
        rec.viol(key, msg + ' | OPEN SEQUENCE server=%s%s allow_upgrades=%r '
                 'opens=%r' % (srv, ' (no WebSocket driver)'
                               if spec.get('nodrv') else '', au, kinds), case)
    try:
        for k, kind in enumerate(kinds):
            n0 = len(sim.events)
            if kind == 'websocket':
                h = sim.open_ws()
            else:
                h = sim.open_polling({'j': '5'} if kind == 'jsonp' else None)
            t = h.open_ticket
            rec.count('open_reference')
            con = [e['sid'] for e in sim.events[n0:] if e['ev'] == 'connect']
            if len(con) != 1:
                Vv('connect-count', 'open #%d (%s): connect handler ran %d '
                   'times' % (k + 1, kind, len(con)))
                return
            try:
                if kind == 'websocket':
                    o = decode_packet(h.ws.frames[0]['frame'])
                elif kind == 'jsonp':
                    o = decode_payload(jsonp.parse(t.text())[1])[0]
                else:
                    o = decode_payload(t.text())[0]
                assert o[0] == 0 and isinstance(o[1], dict)
                o = o[1]
            except Exception as e:
                Vv('open-malformed', 'open #%d (%s) answered status=%r body=%r'
                   ': %r' % (k + 1, kind, t.status, (t.body or b'')[:80], e))
                return
            if o.get('sid') != con[0]:
                Vv('open-sid', 'open #%d (%s): OPEN sid %r != connect handler '
                   'sid %r' % (k + 1, kind, o.get('sid'), con[0]))
            if (o.get('pingInterval'), o.get('pingTimeout'),
                    o.get('maxPayload')) != (pi * 1000, pt * 1000, mb):
                Vv('open-fields', 'open #%d (%s): OPEN packet %r, configured '
                   'interval %r timeout %r max %r' % (k + 1, kind, o, pi, pt,
                                                      mb))
            ups = o.get('upgrades')
            if kind == 'websocket':
                if ups != []:
                    Vv('upgrades-on-websocket', 'open #%d is a WebSocket '
                       'connection and advertises upgrades %r' % (k + 1, ups))
            elif ups not in ([], ['websocket']):
                Vv('open-upgrades-form', 'open #%d: upgrades %r' % (k + 1, ups))
            elif ups and not au:
                Vv('advertised-not-accepted', 'open #%d (%s) advertises '
                   'websocket with allow_upgrades=False' % (k + 1, kind))
            elif ups and k % 2 == 0:
                rec.count('upgrade_probe')
                h.sid = con[0]
                ws, ok = sim.do_upgrade(h)
                if not ok:
                    Vv('advertised-not-accepted', 'open #%d (%s) advertises '
                       'websocket but the probe handshake did not complete' %
                       (k + 1, kind))
    finally:
        sim.teardown()


def run_cookie_sequence(rec, spec):
    """Several handshakes on ONE server whose cookie has computed (callable)
    attributes: every cookie carries the sid of its own OPEN packet and the
    attribute values the configuration yields AT THAT handshake."""
    from vf.simbase import decode_payload
    srv = spec['srv']
    case = {'cookieseq': dict(spec)}
    rec.evaluations += 1
    rec.count('cookie_sequences')
    rec.key('cookieseq/%s' % srv)
    state = {'age': 100, 'secure': True}
    cookie = {'name': 'k', 'Max-Age': lambda: str(state['age']),
              'Secure': lambda: state['secure'], 'path': '/p',
              'SameSite': 'Lax'}
    sim = scen.make_sim(srv, server_kwargs={'cookie': cookie})

    def Vv(key, msg):
        rec.viol(key, msg + ' | COOKIE SEQUENCE server=%s' % srv, case)
    try:
        for k in range(5):
            state['age'] = 100 + 7 * k
            state['secure'] = (k % 2 == 0)
            h = sim.open_polling()
            t = h.open_ticket
            if h.sid is None:
                Vv('open-failed', 'open %d failed: %r' % (k, t.status))
                return
            rec.count('cookie')
            sc = t.header_all('Set-Cookie')
            if len(sc) != 1:
                Vv('cookie-count', 'open %d: Set-Cookie headers %r' % (k, sc))
                return
            parts = [x.strip() for x in sc[0].split(';')]
            attrs = {}
            for part in parts[1:]:
                a, _, v = part.partition('=')
                attrs[a] = v if _ else True
            if parts[0] != 'k=' + h.sid:
                Vv('cookie-sid', 'open %d: cookie %r does not carry the sid '
                   '%r' % (k, parts[0], h.sid))
            want = {'Max-Age': str(state['age']), 'path': '/p',
                    'SameSite': 'Lax'}
            if state['secure']:
                want['Secure'] = True
            if attrs != want:
                Vv('cookie-attributes', 'handshake #%d on this server: cookie '
                   'attributes %r, the configuration yields %r now' % (
                       k + 1, attrs, want))
                return
        if not (callable(cookie['Max-Age']) and callable(cookie['Secure'])):
            Vv('cookie-config-rewritten', 'the application\'s cookie '
               'configuration dict was modified: %r' % (cookie,))
    finally:
        sim.teardown()


def plan(tier, seed):
    allc = cells(tier, seed)
    rng = gen.mkrng('c11', seed)
    if tier == 'thorough':
        chosen = allc
    else:
        d = (0, 0, 2, 0, 0, 0, 0, 0)
        one = set()
        dims = [len(PI), len(PT), len(MB), 2, 3, len(CK), len(OUT), 3]
        for i, n in enumerate(dims):
            for v in range(n):
                for j, m in enumerate(dims):
                    for w in range(m):
                        c = list(d)
                        c[i], c[j] = v, w
                        for s in range(len(SRV)):
                            one.add(tuple(c) + (s,))
        chosen = sorted(one) + rng.sample(allc, 2000)
    # websocket driver unavailable: small sub-grid
    extra = [(0, 0, 2, a, tr, 0, o, k, s, False)
             for a in (0, 1) for tr in (0, 1) for o in (0, 2)
             for k in (0, 1) for s in range(len(SRV))]
    chosen = list(chosen) + extra
    rng.shuffle(chosen)
    n = 16
    shards = [{'cells': chosen[i::n]} for i in range(n)]
    over = []
    for srv in SRV:
        for outs in ([None, None], [None, None, None], [None, False],
                     [False, None], ['no', None, True], [None, 'raise']):
            over.append({'srv': srv, 'n': len(outs), 'outcomes': outs})
    seqs = []
    kinds = ['polling', 'websocket', 'jsonp']
    for srv in SRV:
        for au in (True, False):
            for a in kinds:
                for b in kinds:
                    if a != b:
                        seqs.append({'srv': srv, 'au': au,
                                     'kinds': [a, b, a, b]})
            for _ in range(400 if tier == 'thorough' else 3):
                seqs.append({'srv': srv, 'au': au, 'kinds': [
                    rng.choice(kinds) for _ in range(rng.randint(3, 6))]})
            if srv in ('T', 'A'):
                # a deployment whose driver has no WebSocket support: every
                # handshake of the sequence says so, not only the first
                seqs.append({'srv': srv, 'au': au, 'nodrv': True,
                             'kinds': ['polling', 'polling', 'jsonp',
                                       'polling', 'polling']})
    shards.append({'cells': [], 'overlaps': over, 'openseqs': seqs,
                   'cookieseqs': [{'srv': x} for x in SRV]})
    return shards


def run_shard(spec):
    rec = Rec()
    for o in spec.get('overlaps', []):
        scen.run_cases(rec, [o], run_overlap)
    for o in spec.get('cookieseqs', []):
        scen.run_cases(rec, [o], run_cookie_sequence)
    for o in spec.get('openseqs', []):
        scen.run_cases(rec, [o], run_open_sequence)
    scen.run_cases(rec, [tuple(c) for c in spec['cells']], run_cell)
    if len(spec['cells']) > 5000:
        rec.extra['exhaustive'] = True
    return rec.result()


def replay(case):
    rec = Rec()
    if 'overlap' in case:
        run_overlap(rec, case['overlap'])
        return rec.violations
    if 'openseq' in case:
        run_open_sequence(rec, case['openseq'])
        return rec.violations
    if 'cookieseq' in case:
        run_cookie_sequence(rec, case['cookieseq'])
        return rec.violations
    run_cell(rec, tuple(case['cell']))
    return rec.violations

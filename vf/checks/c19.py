"""C19 - response transformations (compression, JSONP) are lossless and well
labelled.

Monitor: a response decoder at the client boundary - undo the declared
Content-Encoding, evaluate the JSONP string literal by ECMAScript rules
(vf/jsonp.py), decode the payload with the reference - compared with the
packets the scenario itself queued (unique ids).
"""
import gzip
import zlib

from vf import gen, jsonp, scen
from vf.rec import Rec
from vf.simbase import decode_payload

PROPERTY = 'C19'
LEVEL = 'exploration'
RULE = ('seeded scenarios: 1..4 queued messages drawn from {quote, backslash, '
        'slash, LF, CR, TAB, NUL, U+2028, U+2029, U+0085, non-ASCII, non-BMP, '
        '</script>, JSON values, binary} x Accept-Encoding(19 shapes incl. malformed q-values) x '
        'http_compression(2) x threshold in {0, size-1, size, size+1, 10^6} '
        '(size measured by a dry run) x JSONP index {none, 0, 7, 10^9} x '
        'response kind {open, poll} x server(2), each on a fresh server; '
        'plus sequences of 3..9 responses (small / long / open, changing '
        'Accept-Encoding and JSONP index, two sessions) from ONE server '
        'instance, every response judged by the same decoder. distinct = distinct '
        '(accept-encoding shape, compression, threshold position, jsonp, '
        'payload-character classes present, kind, server)')
ASSUMPTIONS = ['"offered" = token present in Accept-Encoding with q absent or '
               '> 0; q=0 cases are counted but not judged',
               'text payloads avoid U+001E (framing precondition of C02)',
               'the JavaScript string-literal reader in vf/jsonp.py follows '
               'ECMA-262 (raw LF/CR illegal; U+2028/2029 legal since ES2019 '
               'and counted separately)']
REQUIRED = ['decoded_responses', 'jsonp_evaluated', 'encoding_declared',
            'threshold_edges', 'sequence_responses', 'acknowledgements']
SHARD_TIMEOUT = {'quick': 300, 'thorough': 3000}

AE = [None, 'gzip', 'deflate', 'gzip, deflate', 'deflate, gzip',
      'gzip;q=0.5', 'gzip;q=0', 'br', 'br, gzip', ' gzip ', '*', 'GZIP',
      'identity', 'deflate;q=0, gzip', 'gzip;q=high', 'gzip;q=',
      'deflate;q', 'gzip; q=1.0', 'gzip;q=0.000, deflate;q=0.001']
CHARS = {'quote': '"', 'bslash': '\\', 'slash': '/', 'lf': '\n', 'cr': '\r',
         'tab': '\t', 'nul': '\x00', 'ls': '\u2028', 'ps': '\u2029',
         'nel': '\x85', 'latin': 'é', 'astral': '😀', 'script': '</script>',
         'bsq': '\\"', 'bsn': '\\n', 'u': '\\u0041', 'end': '");',
         'apos': "'"}


def offered(ae):
    """-> (set of offered tokens, set of q=0 tokens)"""
    on, off = set(), set()
    if not ae:
        return on, off
    for part in ae.split(','):
        bits = [b.strip() for b in part.split(';')]
        tok = bits[0].lower()
        q = 1.0
        for b in bits[1:]:
            if b.lower().startswith('q='):
                try:
                    q = float(b[2:])
                except ValueError:
                    q = 1.0
        if not tok:
            continue
        (on if q > 0 else off).add(tok)
    return on, off


def gen_messages(rng):
    msgs, classes = [], set()
    for i in range(rng.randint(1, 4)):
        k = rng.random()
        if k < 0.6:
            names = [rng.choice(sorted(CHARS)) for _ in range(rng.randint(
                1, 5))]
            classes.update(names)
            body = ''.join(CHARS[n] + rng.choice(['', 'a', ' ']) for n in names)
            msgs.append('m%d:' % i + body)
        elif k < 0.75:
            classes.add('json')
            msgs.append({'id': i, 'v': [CHARS[rng.choice(sorted(CHARS))],
                                        rng.choice([1, None, 2.5])]})
        elif k < 0.9:
            classes.add('binary')
            msgs.append(gen.rbytes(rng, 0, 40))
        else:
            classes.add('long')
            msgs.append('L%d:' % i + 'x"\\\n' * rng.randint(100, 600))
    return msgs, classes


def decode_response(t, j, rec, V, ack=False):
    """-> (packets, uncompressed_len, declared) or None after a violation.
    ack=True: the response is a packet-less acknowledgement ("OK")."""
    body = t.body or b''
    ce = t.header_all('Content-Encoding')
    declared = None
    if len(ce) > 1:
        V('multiple-content-encoding', 'Content-Encoding headers %r' % (ce,))
        return None
    if ce:
        declared = ce[0]
        try:
            if declared == 'gzip':
                body = gzip.decompress(body)
            elif declared == 'deflate':
                body = zlib.decompress(body)
            else:
                V('unknown-content-encoding', 'declared %r' % declared)
                return None
        except Exception as e:
            V('declared-but-not-encoded', 'Content-Encoding %r declared but '
              'the body does not decode with it: %r' % (declared, e))
            return None
    try:
        text = body.decode('utf-8')
    except UnicodeDecodeError:
        V('undeclared-body-not-text', 'body without Content-Encoding is not '
          'UTF-8 text (compressed but undeclared?): %r' % body[:40])
        return None
    if ack:
        if text != 'OK':
            V('acknowledgement-body', 'after undoing the declared encoding '
              'the acknowledgement body is %r, not OK' % text[:60])
            return None
        return [], len(body), declared
    if j is not None:
        rec.count('jsonp_evaluated')
        try:
            idx, text, legacy = jsonp.parse(text)
        except ValueError as e:
            V('jsonp-not-a-call-statement', 'JSONP body is not one complete '
              '___eio[n]("...") statement: %s; body=%r' % (e, text[:160]))
            return None
        if legacy:
            rec.count('jsonp_raw_u2028_2029')
        if str(idx) != str(int(j)):
            V('jsonp-index', 'index %r for j=%r' % (idx, j))
            return None
    try:
        pk = decode_payload(text)
    except Exception as e:
        V('payload-undecodable', 'decoded body is not a payload: %r (%r)' % (
            text[:120], e))
        return None
    return pk, len(body), declared


def run_case(rec, case):
    rng = gen.mkrng('c19', case['seed'], case['i'])
    srv = rng.choice(['T', 'A'])
    if srv == 'A' and case.get('aio'):
        srv = case['aio']    # asyncio server behind the aiohttp / tornado adapter
        rec.count('histories_on_aiohttp_adapter')
    ae = rng.choice(AE)
    comp = rng.random() < 0.8
    j = rng.choice([None, None, '0', '7', '1000000000'])
    kind = rng.choice(['poll', 'poll', 'poll', 'open'])
    msgs, classes = gen_messages(rng)
    tpos = rng.choice(['zero', 'below', 'at', 'above', 'huge'])
    rec.evaluations += 1

    def V(key, msg):
        rec.viol(key, msg + ' | server=%s Accept-Encoding=%r compression=%r '
                 'threshold=%s j=%r kind=%s messages=%r' % (
                     srv, ae, comp, tpos, j, kind,
                     [m if len(repr(m)) < 80 else repr(m)[:80] for m in msgs]),
                 case)

    def scenario(threshold, compression, headers):
        sim = scen.make_sim(srv, server_kwargs={
            'http_compression': compression,
            'compression_threshold': threshold})
        try:
            q = {'j': j} if j is not None else None
            if kind == 'open':
                h = sim.open_polling(q, headers=headers)
                return h.open_ticket, None
            h = sim.open_polling()
            for m in msgs:
                sim.app_call('send', h.sid, m)
            sim.quiesce()
            t = sim.poll(h, q, headers=headers)
            sim.quiesce()
            return t, h
        finally:
            sim.teardown()
    # dry run to learn the uncompressed size of this very response
    t0, _ = scenario(10 ** 9, False, {})
    if not t0.done or t0.code != 200:
        V('response-failed', 'dry run answered %r exc=%r' % (t0.status,
                                                              t0.exc))
        return
    size = len(t0.body)
    thr = {'zero': 0, 'below': max(0, size - 1), 'at': size,
           'above': size + 1, 'huge': 10 ** 6}[tpos]
    hd = {} if ae is None else {'Accept-Encoding': ae}
    t, h = scenario(thr, comp, hd)
    if not t.done or t.code != 200:
        V('response-failed', 'answered %r exc=%r' % (t.status, t.exc))
        return
    rec.count('decoded_responses')
    if tpos in ('below', 'at', 'above'):
        rec.count('threshold_edges')
    res = decode_response(t, j, rec, V)
    rec.key('%s/%s/%s/%s/%s/%s/%s' % (srv, AE.index(ae), comp, tpos, j, kind,
                                      '+'.join(sorted(classes))))
    if res is None:
        return
    pk, ulen, declared = res
    if kind == 'open':
        if not pk or pk[0][0] != 0 or not isinstance(pk[0][1], dict):
            V('open-lost', 'open response decodes to %r' % (pk[:2],))
    else:
        got = [d for tp, d in pk if tp == 4]
        want = [gen.expected_roundtrip(m) for m in msgs]
        if len(got) != len(want) or not all(gen.same(a, b)
                                            for a, b in zip(got, want)):
            V('payload-differs-jsonp' if j is not None else
              'payload-differs', 'client decodes %r, the response carries %r' %
              ([repr(g)[:80] for g in got], [repr(w)[:80] for w in want]))
    judge_encoding(rec, V, declared, ae, comp, ulen, thr)
    if rec.evaluations % 401 == 1:
        rec.sample({'server': srv, 'accept_encoding': ae, 'compression': comp,
                    'threshold': tpos, 'j': j, 'kind': kind,
                    'declared': declared,
                    'messages': [gen.jsonable(m) if len(repr(m)) < 100
                                 else '<long>' for m in msgs]})


def judge_encoding(rec, V, declared, ae, comp, ulen, thr):
    on, off = offered(ae)
    if declared is not None:
        rec.count('encoding_declared')
        if declared in off and declared not in on:
            rec.count('q0_honoured_not_judged')
        elif declared not in on and '*' not in on:
            V('encoding-not-offered', 'Content-Encoding %r but the request '
              'offered %r' % (declared, sorted(on)))
        if not comp:
            V('encoding-when-disabled', 'Content-Encoding %r with '
              'http_compression=False' % declared)
        if ulen < thr:
            V('encoding-below-threshold', 'Content-Encoding %r for a body of '
              '%d bytes, threshold %d' % (declared, ulen, thr))


def run_sequence(rec, case):
    """Several responses from ONE server instance: whatever an earlier
    response did (was compressed, was JSONP, carried a cookie) must not show
    in a later one."""
    rng = gen.mkrng('c19seq', case['seed'], case['i'])
    srv = rng.choice(['T', 'A'])
    if srv == 'A' and case.get('aio'):
        srv = case['aio']    # asyncio server behind the aiohttp / tornado adapter
        rec.count('histories_on_aiohttp_adapter')
    comp = rng.random() < 0.85
    thr = rng.choice([0, 0, 2, 60, 200, 1024])
    cookie = rng.choice([None, None, 'io'])
    rec.evaluations += 1
    steps = []

    def V(key, msg):
        rec.viol(key, msg + ' | SEQUENCE server=%s compression=%r '
                 'threshold=%d cookie=%r responses so far=%r' % (
                     srv, comp, thr, cookie, steps), case)
    sim = scen.make_sim(srv, real_ws_driver=bool(case.get('tws')),
                        server_kwargs={
        'http_compression': comp, 'compression_threshold': thr,
        'cookie': cookie})
    try:
        # (one of the two sessions offers compression in its handshake:
        # what a handshake offered says nothing about later requests)
        hs = [sim.open_polling(headers={'Accept-Encoding': 'gzip, deflate'}),
              sim.open_polling()]
        if any(h.sid is None for h in hs):
            V('response-failed', 'open failed')
            return
        rec.count('sequences')
        for k in range(rng.randint(3, 9)):
            ae = rng.choice(AE)
            j = rng.choice([None, None, '0', '7'])
            hd = {} if ae is None else {'Accept-Encoding': ae}
            q = {'j': j} if j is not None else None
            kind = rng.choice(['poll', 'poll', 'poll', 'open', 'post',
                               'options'])
            if kind in ('post', 'options'):
                # packet-less acknowledgements are responses too
                h = rng.choice(hs)
                qq = {'transport': 'polling', 'EIO': '4', 'sid': h.sid}
                qq.update(q or {})
                t = sim.request('POST' if kind == 'post' else 'OPTIONS', qq,
                                hd, body=b'4up' if kind == 'post' else None)
                sim.quiesce()
                msgs, size = None, 'ack'
                rec.count('acknowledgements')
            elif kind == 'open':
                h = sim.open_polling(q, headers=hd)
                t, msgs = h.open_ticket, None
                size = 'open'
                if h.sid is not None and j is None:
                    hs.append(h)    # later polls may use this session too
            else:
                h = rng.choice(hs)
                size = rng.choice(['small', 'small', 'long'])
                msgs = ['s%d:%s' % (k, CHARS[rng.choice(sorted(CHARS))])]
                if size == 'long':
                    msgs.append('L%d:' % k + 'y"\\\n' * rng.randint(300, 600))
                for m in msgs:
                    sim.app_call('send', h.sid, m)
                sim.quiesce()
                t = sim.poll(h, q, headers=hd)
                sim.quiesce()
            steps.append((kind, size, ae, j))
            if not t.done or t.code != 200:
                V('response-failed', 'answered %r exc=%r' % (t.status, t.exc))
                return
            rec.count('decoded_responses')
            rec.count('sequence_responses')
            res = decode_response(t, j, rec, V, ack=(size == 'ack'))
            if res is None:
                return
            pk, ulen, declared = res
            steps[-1] = steps[-1] + (declared,)
            if size == 'ack':
                pass
            elif kind == 'open':
                if not pk or pk[0][0] != 0 or not isinstance(pk[0][1], dict):
                    V('open-lost', 'open response decodes to %r' % (pk[:2],))
            else:
                got = [d for tp, d in pk if tp == 4]
                if got != msgs:
                    V('payload-differs-jsonp' if j is not None else
                      'payload-differs', 'client decodes %r, the response '
                      'carries %r' % ([repr(g)[:60] for g in got],
                                      [repr(w)[:60] for w in msgs]))
            judge_encoding(rec, V, declared, ae, comp, ulen, thr)
            ct = t.header_all('Content-Type')
            if len(ct) != 1:
                V('content-type-count', 'Content-Type headers %r' % (ct,))
        rec.key('seq/%s/%s/%s/%s' % (srv, comp, thr, '+'.join(
            '%s%s%s' % (st[0][0], st[1][0], 'c' if st[-1] else '-')
            for st in steps if len(st) == 5)))
    finally:
        sim.teardown()


def dispatch(rec, case):
    if case.get('seq'):
        run_sequence(rec, case)
    else:
        run_case(rec, case)


def plan(tier, seed):
    n = 16
    per = 90000 if tier == 'thorough' else 900
    return [{'seed': seed, 'shard': s, 'n': per} for s in range(n)]


def run_shard(spec):
    rec = Rec()
    cases = [{'seed': spec['seed'], 'i': spec['shard'] * 1000000 + k}
             for k in range(spec['n'])]
    for c in cases[::2]:
        c['aio'] = 'H'
    for c in cases[2::4]:
        c['aio'] = 'N'     # ... and behind the tornado adapter
    for c in cases[1::3]:
        c['tws'] = True    # threaded server: the real simple_websocket driver
    # one in six cases is a sequence of responses from one server instance
    cases += [{'seed': spec['seed'], 'i': spec['shard'] * 1000000 + k,
               'seq': True} for k in range(spec['n'] // 6)]
    scen.run_cases(rec, cases, dispatch)
    return rec.result()


replay = scen.simple_replay(dispatch)

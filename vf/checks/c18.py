"""C18 - threaded and asyncio servers are observationally equivalent.

Monitor: lock-step differential replay. One generated history (action
alphabet = union of those of C03-C07 and C12) is executed step by step on the
real threaded server (canonical FIFO schedule) and on the real asyncio server;
after every action both run to quiescence at the same virtual instant and
their boundary observations are compared: application events, packets handed
to the client (ids, order, transport), statuses of completed requests, and the
set of live sessions with their transports.
"""
from vf import gen, hist, scen
from vf.rec import Rec

PROPERTY = 'C18'
LEVEL = 'exploration'
RULE = ('seeded histories of 5..60 actions over 1..3 sessions: opens (polling '
        '/ websocket, every connect-handler outcome), polls, posts of bodies '
        '(messages of all kinds, PONG, UPGRADE, CLOSE, invalid types 0 2 6 7 8 '
        '9, undecodable pieces, >16 packets), probe handshakes (correct, wrong '
        'frames, closed at each point), frames on established sockets, '
        'application send / disconnect(sid), admission requests with odd '
        'queries, clock advances. distinct = distinct (action-kind multiset, '
        'final liveness/transport vector) signatures; every step compares '
        'four observation streams')
ASSUMPTIONS = ['threaded side runs under the canonical FIFO schedule',
               'excluded as the statement excludes them: the status of a poll '
               'that was pending when its session ended, and the reason / '
               'instant of ends caused by silence (both must end within the '
               'bound)',
               'disconnect() of all clients is not in the alphabet (it blocks '
               'differently under known finding K1)']
REQUIRED = ['steps_compared', 'histories_with_odd_handlers', 'event_streams', 'delivery_streams',
            'status_compared', 'liveness_compared']
SHARD_TIMEOUT = {'quick': 500, 'thorough': 3400}
PI, PT = 5, 3


def gen_actions(rng):
    acts = []
    nsess = 0
    script = []
    silent = set()
    for _ in range(rng.randint(5, 60)):
        k = rng.random()
        if nsess == 0 or (k < 0.1 and nsess < 3):
            out = rng.choice([None, None, None, True, False, 'no', 'raise',
                              {'e': 1}, 'raise-type'])
            script.append(out)
            # every client polls and answers PINGs until it vanishes, so
            # that no end is caused by silence unless the history says so
            acts.append(['open', rng.choice(['polling', 'polling',
                                             'websocket']), True])
            nsess += 1
            continue
        s = rng.randrange(nsess)
        if k < 0.22:
            acts.append(['send', s, rng.choice(['text', 'json', 'binary'])])
        elif k < 0.30:
            acts.append(['send', s, 'text'])
        elif k < 0.48:
            n = rng.choice([1, 1, 2, 3, 5, 17])
            items = []
            for _ in range(n):
                q = rng.random()
                if q < 0.6:
                    items.append(['m', rng.choice(['text', 'json', 'binary',
                                                   'text', 'json', 'binary',
                                                   'float'])])
                elif q < 0.7:
                    items.append(['raw', '3'])
                elif q < 0.76:
                    items.append(['raw', '5'])
                elif q < 0.82:
                    items.append(['raw', '1'])
                elif q < 0.94:
                    items.append(['raw', rng.choice('026789') +
                                  rng.choice(['', 'x'])])
                else:
                    items.append(['raw', rng.choice(['x', '', 'bA'])])
            acts.append(['up', s, items])
        elif k < 0.55:
            acts.append(['upgrade', s, rng.choice([
                'correct', 'correct', 'wrongprobe', 'close-before',
                'close-after-probe', 'wrong-upgrade', 'oversize'])])
        elif k < 0.61:
            # one step of a handshake driven frame by frame, so that other
            # actions fall between socket open / probe / UPGRADE
            acts.append(['upgstep', s, rng.choice(['open', 'probe', 'probe',
                                                   'upgrade', 'close'])])
        elif k < 0.63:
            acts.append(['disc', s])
        elif k < 0.66:
            acts.append(['wsclose', s])
        elif k < 0.68:
            acts.append(['wsbreak', s])
        elif k < 0.72:
            acts.append(['vanish', s])
        elif k < 0.80:
            acts.append(['weird', s, rng.choice([
                ['GET', {'transport': 'foo', 'EIO': '4'}],
                ['GET', {'transport': 'polling', 'EIO': '3'}],
                ['GET', {'transport': 'polling'}],
                ['PUT', {'transport': 'polling', 'EIO': '4'}],
                ['GET', {'transport': 'websocket', 'EIO': '4', 'sid': '$'}],
                ['GET', {'transport': 'polling', 'EIO': '4', 'sid': '$',
                         'j': 'abc'}],
                ['POST', {'transport': 'polling', 'EIO': '4', 'sid': 'nope'}],
                ['POST', {'transport': 'polling', 'EIO': '4', 'sid': '$',
                          'j': 'abc'}],
                ['PUT', {'transport': 'polling', 'EIO': '4', 'j': 'x'}],
                ['OPTIONS', {'transport': 'foo'}],
                ['POST', {'transport': 'websocket', 'EIO': '4', 'sid': '$'}],
                ['POST', {'transport': 'polling', 'EIO': '4'}],
                ['OPTIONS', {'transport': 'polling', 'EIO': '4'}],
                ['DELETE', {'sid': '$'}],
                ['OPTIONS', {'transport': 'polling'}],
                ['OPTIONS', {}],
                ['OPTIONS', {'transport': 'polling', 'EIO': '3'}],
                ['PUT', {'transport': 'polling'}],
                ['DELETE', {}],
                ['OPTIONS', {'transport': 'polling', 'EIO': '4',
                             'j': 'abc'}],
                ['POST', {'transport': 'polling'}],
                ['GET', {'transport': 'websocket', 'EIO': '4'}],
                ['GET', {'EIO': '4'}],
                ['HEAD', {'transport': 'polling', 'EIO': '4'}]])])
        else:
            acts.append(['adv', rng.choice([0.5, 1, PI, PT, PI + PT])])
    # application handlers: a share of the histories uses handlers that block
    # / await after they were entered, fail every time (Exception or
    # BaseException-only), or have the legacy one-argument disconnect form
    hcfg = {}
    if rng.random() < 0.3:
        hcfg['suspend'] = {rng.choice(['message', 'disconnect']):
                           rng.choice([0.25, 1.0])}
    if rng.random() < 0.15:
        hcfg['boom'] = {rng.choice(['message:*', 'disconnect:*']): True}
        hcfg['boom_base'] = rng.random() < 0.4
        if not hcfg['boom_base'] and rng.random() < 0.4:
            hcfg['boom_type'] = 'typeerror'
    if rng.random() < 0.15:
        hcfg['legacy_disconnect'] = True
    if rng.random() < 0.3:
        # another spelling of the (case-insensitive) handshake headers
        hcfg['upgrade_spelling'] = rng.choice([1, 2])
    if rng.random() < 0.3:
        # response transformations: the client offers compression (the
        # servers compress from 16 bytes on) and / or polls with JSONP
        hcfg['transform'] = rng.choice(['gzip', 'deflate', 'jsonp',
                                        'gzip+jsonp'])
    return acts, script, hcfg


class Side:
    def __init__(self, kind, script, hcfg=None, real_ws=False):
        self.transform = (hcfg or {}).get('transform', '')
        self.sim = scen.make_sim(kind, real_ws_driver=real_ws, server_kwargs={
            'ping_interval': PI, 'ping_timeout': PT,
            'max_http_buffer_size': 2000, 'compression_threshold': 16},
            handler_cfg=dict(hcfg or {}, connect=script), policy='fifo')
        self.sim.upgrade_spelling = (hcfg or {}).get('upgrade_spelling', 0)
        if kind in scen.HTTPB:
            # (the server options are the same for every history here: the
            # offer of permessage-deflate follows the connect script instead)
            self.sim.ws_offer_deflate = sum(1 for x in script if x) % 2 == 1
        for enc in ('gzip', 'deflate'):
            if enc in self.transform:
                self.sim.poll_headers = {'Accept-Encoding': enc}
        self.R = hist.Runner(self.sim)
        self.ev_seen = 0
        self.dl_seen = 0
        self.ot_seen = 0
        self.silent = set()
        self.broken = set()     # websocket handler ended by an exception
        self.timed = set()      # shared: ended for silence on either side
        self.step_tickets = []
        self.step_calls = []

    def do(self, a):
        sim, R = self.sim, self.R
        self.step_tickets = []
        self.step_calls = []
        op = a[0]
        if op == 'open':
            s = R.open(a[1], autopoll=False, autopong=0)
            if 'jsonp' in self.transform and a[1] == 'polling':
                s.jsonp = 7
            s.autopoll = a[2]
            if a[2] and s.accepted and a[1] == 'polling':
                R.poll(s)
            self.step_tickets.append(s.h.open_ticket)
            return
        if op == 'adv':
            sim.advance(a[1])
            return
        if a[1] >= len(R.S):
            return
        s = R.S[a[1]]
        if (s.n in self.silent or s.n in self.timed) and op in (
                'poll', 'up', 'upgrade', 'wsclose', 'wsbreak', 'vanish', 'weird',
                'upgstep', 'send', 'disc'):
            if s.n in self.silent and op in ('send', 'disc'):
                pass            # the application does not know it yet
            else:
                return          # a client that went away does nothing more;
            #                     a session one side already ended for
            #                     silence is left alone on both
        if not s.accepted:
            if op == 'weird':
                pass
            else:
                return
        if op == 'send':
            self.step_calls.append(R.send(s, a[2]))
        elif op == 'poll':
            if s.mode == 'polling':
                R.poll(s)
        elif op == 'up':
            pieces = []
            for it in a[2]:
                if it[0] == 'm':
                    uid, data, wire = R.up_payload(s, it[1])
                    pieces.append(wire if not (s.mode == 'websocket' and
                                               it[1] == 'binary')
                                  else bytes(data))
                else:
                    pieces.append(it[1])
            if s.mode == 'websocket' and s.ws is not None:
                for p in pieces:
                    if p == '':
                        continue    # (an empty text frame: see C04)
                    if p in ('x', 'bA'):
                        # an undecodable frame makes the WebSocket handler of
                        # either server end with an exception; what a driver
                        # does with the connection then is the driver's
                        # business, so what still travels on this socket is
                        # not compared - the events and the liveness of the
                        # session are
                        self.broken.add(s.n)
                    s.ws.send(p)
                    sim.quiesce()
            else:
                self.step_tickets.append(
                    R.post_raw(s, gen.SEP.join(pieces)))
        elif op == 'upgrade':
            if s.mode != 'polling' or s.up_state in ('started', 'probed'):
                return
            how = a[2]
            if how == 'correct':
                R.upgrade_start(s, 'correct')
            else:
                ws = R.upgrade_start(s, 'manual')
                sim.quiesce()
                if how == 'wrongprobe':
                    ws.send('2x')
                elif how == 'close-before':
                    ws.close()
                elif how == 'close-after-probe':
                    ws.send('2probe')
                    sim.quiesce()
                    ws.close()
                elif how == 'wrong-upgrade':
                    ws.send('2probe')
                    sim.quiesce()
                    ws.send('4no')
                else:
                    ws.send('4' + 'a' * 3000)
                sim.quiesce()
                ws.close()
                sim.quiesce()
                R.upgrade_failed(s)
        elif op == 'upgstep':
            step = a[2]
            ws = getattr(s, 'man_ws', None)
            if step == 'open':
                if s.mode != 'polling' or ws is not None or \
                        s.up_state in ('started', 'probed'):
                    return
                s.man_ws = R.upgrade_start(s, 'manual')
                s.man_state = 'open'
            elif ws is None:
                return
            elif step == 'probe' and s.man_state == 'open':
                ws.send('2probe')
                s.man_state = 'probed'
            elif step == 'upgrade' and s.man_state == 'probed':
                # like real clients: only once the in-flight poll returned
                # (a poll left pending by the end of its session is released
                # differently by the two servers - see DESIGN 5.3 - and must
                # not steer the script)
                sim.quiesce()
                if [p for p in s.polls if not p.done] and not R.ended(s):
                    return
                ws.send('5')
                sim.quiesce()
                R._complete_upgrade(s, ws)
                ws.on_frame = lambda c, fr: R._on_frame(s, c, fr, True)
                s.man_ws = None
            elif step == 'close':
                ws.close()
                sim.quiesce()
                s.man_ws = None
                R.upgrade_failed(s)
        elif op == 'disc':
            self.step_calls.append(R.disconnect(s))
        elif op == 'wsclose':
            if s.mode == 'websocket':
                R.ws_close(s, 'close')
        elif op == 'wsbreak':
            # the server's writes on the established socket fail from now on;
            # when each server notices depends on its next write (heartbeat)
            if s.mode == 'websocket' and R.ws_break(s):
                self.silent.add(s.n)
        elif op == 'vanish':
            R.vanish(s)
            self.silent.add(s.n)
        elif op == 'weird':
            method, q = a[2]
            q = dict(q)
            if q.get('sid') == '$':
                if s.sid is None:
                    return
                q['sid'] = s.sid
            t = sim.request(method, q, {}, body=b'4x' if method in (
                'POST', 'PUT') else None)
            self.step_tickets.append(t)

    def timing_ended(self):
        """Sessions whose end on this side was caused by silence (heartbeat
        or poll deadline): instant and reason are not compared, only that the
        other side ends them too within the bound."""
        out = set()
        for s in self.R.S:
            for e in self.R.disconnects(s):
                if e.get('true_reason', e['reason']) in (
                        'ping timeout', 'transport error'):
                    out.add(s.n)
        return out

    def silent_sidn(self):
        return {self.sim.sidn(self.R.S[n].sid)
                for n in self.silent | self.timed
                if n < len(self.R.S) and self.R.S[n].sid is not None}

    def observe(self):
        sim, R = self.sim, self.R
        sim.quiesce()
        ev = []
        for e in sim.events[self.ev_seen:]:
            sn = sim.sidn(e['sid'])
            if sn in self.silent_sidn():
                continue        # silent peer: only "ends within the bound"
            if e['ev'] == 'disconnect' and e.get(
                    'true_reason', e['reason']) in (
                    'ping timeout', 'transport error'):
                continue        # timing-caused end: instant/reason excluded
            else:
                ev.append((sn, e['ev'], repr(gen.jsonable(
                    e.get('data', e.get('reason'))))))
        self.ev_seen = len(sim.events)
        dl = [(d['s'], d['id'], d['via']) for d in
              R.deliveries[self.dl_seen:] if d['s'] not in self.broken]
        self.dl_seen = len(R.deliveries)
        ot = [(d['s'], d['type'], d['via']) for d in
              R.delivered_other[self.ot_seen:] if d['type'] not in (2,)]
        self.ot_seen = len(R.delivered_other)
        st = []
        for t in self.step_tickets:
            if t.info.get('ws'):
                st.append(('WS', bool(t.ws is not None and t.ws.accepted)))
            else:
                st.append((t.info.get('method'),
                           t.code if t.done else 'pending',
                           type(t.exc).__name__ if t.exc else None))
        live = []
        for s in R.S:
            if s.accepted and s.n not in self.silent:
                live.append((s.n, s.sid in sim.live_sids(),
                             sim.transport_of(s.sid)))
        calls = [(t.info.get('call'),
                  'pending' if not t.done else
                  type(t.exc).__name__ if t.exc is not None else 'returned')
                 for t in self.step_calls]
        return {'events': ev, 'deliveries': dl, 'other': ot, 'status': st,
                'live': live, 'calls': calls}


def run_history(rec, case):
    rng = gen.mkrng('c18', case['seed'], case['i'])
    acts, script, hcfg = gen_actions(rng)
    rec.evaluations += 1
    # (the threaded server with its fake driver or, in a third of the
    # histories, with the real simple_websocket driver)
    T = Side('T', script, hcfg, real_ws=bool(case.get('tws')))
    # the asyncio server is observed behind the real ASGI adapter or, in a
    # share of the histories, behind the real aiohttp adapter and web server
    A = Side(case.get('aio', 'A'), script, hcfg)
    if case.get('aio'):
        rec.count('histories_on_%s_adapter' % {
            'H': 'aiohttp', 'N': 'tornado'}[case['aio']])
    if hcfg:
        rec.count('histories_with_odd_handlers')

    def V(key, msg):
        lw = getattr(T.sim, 'lost_wakeup_conns', None)
        if lw is not None and lw():
            # known finding K15 (decided on the driver's own state): the
            # real simple_websocket driver under the threaded server did not
            # report the end of a connection; the threaded side then learns
            # of it by its heartbeat, later and with another reason
            key = 'simple-websocket-lost-wakeup'
        rec.viol(key, msg + ' ; handlers %r%s' % (
            hcfg, ' ; asyncio server behind the %s adapter' % {
                'H': 'aiohttp', 'N': 'tornado'}[case['aio']]
            if case.get('aio') else ''),
                 dict(case, actions=acts[:80]))
    timed_seen = set()
    T.timed = A.timed = timed_seen
    try:
        for i, a in enumerate(acts):
            T.do(a)
            A.do(a)
            ot, oa = T.observe(), A.observe()
            rec.count('steps_compared')
            for stream, cname in (('events', 'event_streams'),
                                  ('deliveries', 'delivery_streams'),
                                  ('status', 'status_compared'),
                                  ('live', 'liveness_compared'),
                                  ('calls', 'call_outcomes_compared')):
                rec.count(cname, max(1, len(ot[stream])))
                x, y = ot[stream], oa[stream]
                if stream == 'events':
                    # events of different sessions are not ordered relative
                    # to each other
                    x = sorted(x, key=lambda e: e[0])
                    y = sorted(y, key=lambda e: e[0])
                if stream == 'deliveries':
                    x = sorted(x, key=lambda e: e[0])
                    y = sorted(y, key=lambda e: e[0])
                if stream == 'live':
                    # a session that either side ended for silence (e.g. a
                    # client idling in the middle of a handshake) is only
                    # required to end on both sides within the bound
                    timed = T.timing_ended() | A.timing_ended()
                    timed_seen.update(timed)
                    x = [e for e in x if e[0] not in timed]
                    y = [e for e in y if e[0] not in timed]
                if stream == 'status' and case.get('aio'):
                    # aiohttp's router answers methods the adapter did not
                    # register (anything but GET / POST / OPTIONS) with its
                    # own 405 before the server sees them: both are refusals
                    def norm(e):
                        if e[0] not in ('GET', 'POST', 'OPTIONS', 'WS') and \
                                e[1] in (400, 405):
                            return (e[0], 'refused', e[2])
                        return e
                    x, y = [norm(e) for e in x], [norm(e) for e in y]
                if stream == 'calls' and any(c[1] == 'pending'
                                             for c in x + y):
                    # how long a call stays inside a suspended disconnect
                    # handler is not compared (K1); what it returns or
                    # raises once both are back is
                    continue
                if x != y:
                    V('diverge-%s-after-%s' % (stream, a[0] if a[0] != 'up'
                                               else 'post'),
                      'step %d %r: threaded %s = %r ; asyncio %s = %r ; '
                      'history so far %r' % (
                          i, a, stream, x, stream, y, acts[:i + 1][-12:]))
                    return
        # silent sessions end on both sides within the bound
        T.sim.advance(PI + 3 * PT + PI + PT)
        A.sim.advance(PI + 3 * PT + PI + PT)
        for side in (T, A):
            side.sim.quiesce()
        for n in sorted(set(T.silent) | timed_seen):
            st, sa = T.R.S[n], A.R.S[n]
            if st.accepted and (not T.R.ended(st) or not A.R.ended(sa)):
                V('silent-end-not-detected', 'silent session %d: ended on '
                  'threaded=%r asyncio=%r' % (n, T.R.ended(st),
                                              A.R.ended(sa)))
        kinds = sorted(set(a[0] for a in acts))
        rec.key('%s/%s' % ('+'.join(kinds), [x[1:] for x in ot['live']]))
        if rec.evaluations % 101 == 1:
            rec.sample({'actions': acts[:25], 'final': ot})
    finally:
        T.sim.teardown()
        A.sim.teardown()


def plan(tier, seed):
    n = 16
    per = 30000 if tier == 'thorough' else 450
    return [{'seed': seed, 'shard': s, 'n': per} for s in range(n)]


def run_shard(spec):
    rec = Rec()
    cases = [{'seed': spec['seed'], 'i': spec['shard'] * 1000000 + k}
             for k in range(spec['n'])]
    for c in cases[::4]:
        c['aio'] = 'H'
    for c in cases[2::4]:
        c['aio'] = 'N'     # ... and behind the tornado adapter
    for c in cases[1::3]:
        c['tws'] = True    # threaded server: the real simple_websocket driver
    scen.run_cases(rec, cases, run_history)
    return rec.result()


replay = scen.simple_replay(run_history)

"""C16 - session table hygiene: dead ids are inert, sessions isolated, nothing
leaks.

Monitor: API probes on dead / foreign ids bracketed by snapshots of every
session queue, a per-session token written through the session API and read
back through every id, and - at quiescent checkpoints after a bounded number
of monitor sweeps - comparison of the real session table with the reference
liveness the scenario interpreter derives from the protocol (accepted and not
yet ended by any cause).
"""
from vf import gen, hist, scen
from vf.rec import Rec

PROPERTY = 'C16'
LEVEL = 'exploration'
RULE = ('long seeded runs (quick 60-200 actions / 5-12 sessions, thorough up '
        'to 2000 actions / 40 sessions) of opens (accepted and rejected by '
        'every handler outcome), closes by every cause (CLOSE packet, '
        'disconnect(sid), protocol error, WebSocket close), clients vanishing '
        'mid-poll / mid-upgrade / mid-handshake, API calls with live / dead / '
        'foreign ids, session-data writes and reads, time advancing; '
        'checkpoints after pi+3pt+sweeps of virtual time; monitoring on (leak '
        'oracle) and off (lazy reaping only). distinct = distinct (server, '
        'monitor, multiset of end causes at the checkpoint, table size) '
        'signatures')
ASSUMPTIONS = ['disconnect() of all clients is not used here: with known '
               'finding K1 it can block on the first client and never reach '
               'the others, which would make the reference liveness wrong; '
               'C05 and C15 exercise it',
               'bounded number of sweeps = virtual time ping_interval + 3 x '
               'ping_timeout + 2 x ping_timeout after the clients went silent']
REQUIRED = ['dead_id_send', 'dead_id_accessors', 'isolation_reads',
            'table_checkpoints', 'final_table_empty']
SHARD_TIMEOUT = {'quick': 500, 'thorough': 3400}


def probe_dead(rec, sim, R, sid, V, what, rng=None):
    """send() to a dead id is a silent no-op; accessors raise KeyError; no
    other session is touched. The five calls are made in a seeded order:
    the first use of a dead id may find its closed socket still in the table
    (every later one finds it reaped), so each call must take its turn at
    being the first."""
    sim.quiesce()       # nothing else may be in flight between the snapshots
    before = {k: (v['queue'], v['session']) for k, v in sim.snapshot().items()
              if not v['closed']}
    n0 = len(sim.events)

    def do_send():
        rec.count('dead_id_send')
        tk = sim.app_call('send', sid, 'to-dead')
        sim.quiesce()
        if not tk.done or tk.exc is not None:
            V('send-to-dead-id', 'send() to a %s id: done=%r exc=%r' % (
                what, tk.done, tk.exc))
    calls = [('send', do_send),
             ('get_session', lambda: sim.session_get(sid)),
             ('save_session', lambda: sim.session_save(sid, {'x': 1})),
             ('session()', lambda: sim.session_cm(sid, 'x', 1)),
             ('transport', lambda: sim.server.transport(sid))]
    if rng is not None:
        rng.shuffle(calls)
    rec.count('dead_id_accessors')
    in_table = sid in sim.table_sids()
    rec.count('dead_id_first_call_%s%s' % (
        calls[0][0], '_unreaped' if in_table else ''))
    for name, fn in calls:
        if name == 'send':
            fn()
            continue
        try:
            fn()
        except KeyError:
            continue
        except Exception as e:
            V('dead-id-accessor-wrong-exception', '%s on a %s id raised %r' %
              (name, what, e))
            continue
        V('dead-id-accessor-works', '%s works on a %s id (call order %r, '
          'closed socket still in the table before the calls: %r)' % (
              name, what, [c[0] for c in calls], in_table))
    after = {k: (v['queue'], v['session']) for k, v in sim.snapshot().items()
             if not v['closed']}
    if {k: v for k, v in after.items() if k in before} != \
            {k: v for k, v in before.items() if k in after} or \
            len(sim.events) != n0:
        V('dead-id-call-touched-another-session', 'API calls naming a %s id '
          'changed another session or fired an event' % what)


def run_history(rec, case):
    rng = gen.mkrng('c16', case['seed'], case['i'])
    srv = rng.choice(['T', 'A'])
    if srv == 'A' and case.get('aio'):
        srv = case['aio']    # asyncio server behind the aiohttp / tornado adapter
        rec.count('histories_on_aiohttp_adapter')
    pi, pt = rng.choice([(5, 3), (1, 1), (2, 0.5), (25, 20)])
    monitor = rng.random() < 0.8
    nact = case.get('nact', 120)
    rec.evaluations += 1
    script = [rng.choice([None, None, None, None, True, False, 'no', 'raise',
                          0, {'e': 1}]) for _ in range(1500)]
    sim = scen.make_sim(srv, real_ws_driver=bool(case.get('tws')),
                        server_kwargs={
        'ping_interval': pi, 'ping_timeout': pt, 'monitor_clients': monitor},
        handler_cfg={'connect': script}, policy='random',
        seed=rng.randrange(1 << 30), yield_prob=rng.choice([0.0, 0.2]))
    R = hist.Runner(sim)
    desc = 'server=%s pi=%s pt=%s monitor=%s' % (srv, pi, pt, monitor)

    def V(key, msg):
        rec.viol(key, msg + ' | ' + desc + ' history(tail)=%s' %
                 R.witness(25), case)
    dead_reason = {}           # session n -> cause
    tokens = {}

    def live_ref():
        return [s for s in R.S if s.accepted and s.n not in dead_reason]

    def kill(s, why):
        dead_reason.setdefault(s.n, why)

    def checkpoint(final=False):
        # everybody still alive keeps answering; run the bounded sweeps
        sim.quiesce()
        sim.advance(pi + 3 * pt + 2 * pt + 0.5)
        sim.quiesce()
        want = sorted(s.sid for s in live_ref())
        got = sim.table_sids()
        if monitor:
            rec.count('table_checkpoints')
            if got != want:
                leaked = [x for x in got if x not in want]
                missing = [x for x in want if x not in got]
                causes = sorted({dead_reason.get(s.n, '?') for s in R.S
                                 if s.sid in leaked})
                V('table-leak-' + '+'.join(causes).replace(' ', '_')
                  if leaked else 'live-session-missing-from-table',
                  'after the bounded sweeps the table holds %d ids, reference '
                  'liveness says %d; leaked=%r (ended by %r) missing=%r' % (
                      len(got), len(want), [sim.sidn(x) for x in leaked],
                      causes, [sim.sidn(x) for x in missing]))
        else:
            # monitoring off: nothing may be missing; closed entries are
            # reaped lazily (probe each one, then it must be gone)
            for s in R.S:
                if s.accepted and s.n in dead_reason and \
                        s.sid in sim.table_sids():
                    snap = sim.snapshot().get(s.sid)
                    if snap and snap['closed']:
                        sim.poll(s.h)
                        sim.quiesce()
                        if s.sid in sim.table_sids():
                            V('closed-entry-not-reaped-lazily', 'a closed '
                              'session stays in the table after a request '
                              'naming it')
        rec.key('%s/%s/%s/%d' % (srv, monitor, '+'.join(sorted(set(
            dead_reason.values()))), len(got)))
    try:
        maxs = case.get('maxs', 10)
        for step in range(nact):
            if step and step % 40 == 0:
                checkpoint()
            if srv == 'A' and step == nact // 3 and case['i'] % 3 == 0:
                # the ASGI server ends one lifespan scope and carries on with
                # the same application object (a reload, a test client)
                rec.count('lifespan_cycles_mid_history')
                evs = sim.lifespan_cycle()
                if evs != ['lifespan.startup.complete',
                           'lifespan.shutdown.complete']:
                    V('lifespan-cycle', 'lifespan events %r' % (evs,))
            live = live_ref()
            k = rng.random()
            if (k < 0.18 or not live) and len(live) < maxs:
                m = rng.choice(['polling', 'websocket', 'upgrade',
                                'polling-silent'])
                s = R.open('websocket' if m == 'websocket' else 'polling',
                           autopoll=(m != 'websocket'),
                           autopong=None if m == 'polling-silent' else 0)
                s.plan = m
                if not s.accepted:
                    conn = [e for e in sim.events if e['ev'] == 'connect']
                    if conn and rng.random() < 0.5:
                        probe_dead(rec, sim, R, conn[-1]['sid'], V,
                                   'rejected', rng)
                    continue
                if m == 'polling-silent':
                    kill(s, 'silence')
                if m == 'upgrade':
                    R.upgrade_start(s, 'correct')
                    sim.quiesce()
                # session data
                tok = 'tok-%d' % s.n
                tokens[s.n] = tok
                try:
                    empty = sim.session_get(s.sid)
                    if empty:
                        V('session-data-not-fresh', 'a new session starts '
                          'with data %r' % (empty,))
                    if rng.random() < 0.5:
                        sim.session_save(s.sid, {'tok': tok})
                    else:
                        sim.session_cm(s.sid, 'tok', tok)
                except Exception as e:
                    V('session-api-raises', 'session API on a live id raised '
                      '%r' % (e,))
                continue
            if not live:
                continue
            s = rng.choice(live)
            if k < 0.30:
                R.send(s, 'text')
            elif k < 0.40:
                uid, data, wire = R.up_payload(s, 'text')
                if s.mode == 'websocket':
                    R.ws_send(s, wire)
                else:
                    R.post_raw(s, wire)
            elif k < 0.47:
                if s.mode == 'websocket':
                    R.ws_send(s, '1')
                else:
                    if s.autopoll and rng.random() < 0.5:
                        # the client closes between two polls: it stops
                        # polling, reads one more message, then sends CLOSE
                        # (nothing is pending that could reap the socket)
                        s.autopoll = False
                        R.send(s, 'text')
                        sim.quiesce()
                        rec.count('close_between_polls')
                    R.post_raw(s, '1')
                kill(s, 'client disconnect')
                if rng.random() < 0.5:
                    # first use of the id right after its end (a CLOSE by
                    # POST leaves the closed socket in the table)
                    sim.quiesce()
                    probe_dead(rec, sim, R, s.sid, V, 'just-disconnected',
                               rng)
            elif k < 0.54:
                R.disconnect(s)
                kill(s, 'server disconnect')
            elif k < 0.59 and s.mode == 'polling':
                R.post_raw(s, '8x')
                kill(s, 'protocol error')
            elif k < 0.65 and s.mode == 'websocket':
                how = rng.choice(['close', 'vanish', 'break'])
                if how == 'break':
                    # the server's writes on the socket start failing
                    R.ws_break(s)
                    kill(s, 'silence')
                else:
                    R.ws_close(s, how)
                    kill(s, 'transport close' if how == 'close'
                         else 'silence')
            elif k < 0.72:
                R.vanish(s)
                kill(s, 'silence')
            elif k < 0.76 and s.mode == 'polling' and s.up_state is None:
                # vanish in the middle of an upgrade handshake
                ws = R.upgrade_start(s, 'manual')
                sim.quiesce()
                if rng.random() < 0.5:
                    ws.send('2probe')
                    sim.quiesce()
                ws.vanish()
                R.vanish(s)
                kill(s, 'silence-mid-upgrade')
            elif k < 0.86:
                # isolation reads
                rec.count('isolation_reads')
                for x in live_ref():
                    try:
                        data = sim.session_get(x.sid)
                    except KeyError:
                        # may have just been closed by a timeout we do not
                        # predict here; checkpoints decide liveness
                        continue
                    if data != {'tok': tokens.get(x.n)}:
                        V('session-data-crosstalk', 'get_session of session '
                          '%d returned %r, it saved %r' % (
                              x.n, data, {'tok': tokens.get(x.n)}))
            elif k < 0.93:
                dead = [x for x in R.S if x.accepted and x.n in dead_reason
                        and dead_reason[x.n] not in ('silence',
                                                     'silence-mid-upgrade')]
                if dead:
                    sim.quiesce()
                    probe_dead(rec, sim, R, rng.choice(dead).sid, V,
                               'disconnected', rng)
                else:
                    probe_dead(rec, sim, R, 'nosuchsidAAAAAAAAAAA', V,
                               'unknown', rng)
            else:
                R.advance(rng.choice([0.5, pt, pi]))
            if rng.random() < 0.5:
                sim.quiesce()
        checkpoint()
        # final: everybody silent
        for s in live_ref():
            R.vanish(s)
            kill(s, 'silence')
        sim.advance(pi + 3 * pt + 2 * pt + pi + 1)
        sim.quiesce()
        rec.count('final_table_empty')
        if monitor and sim.table_sids():
            left = sim.table_sids()
            causes = sorted({dead_reason.get(s.n, '?') for s in R.S
                             if s.sid in left})
            V('table-leak-' + '+'.join(causes).replace(' ', '_'),
              'after the final silence %d ids remain in the table: ended by '
              '%r' % (len(left), causes))
        # data discarded at disconnect
        for s in R.S[:6]:
            if s.accepted and (monitor or dead_reason.get(s.n) not in (
                    'silence', 'silence-mid-upgrade')):
                try:
                    sim.session_get(s.sid)
                    V('session-data-survives-disconnect', 'get_session works '
                      'after the session ended')
                except KeyError:
                    pass
        if rec.evaluations % 23 == 1:
            rec.sample({'config': desc, 'sessions': len(R.S),
                        'ends': sorted(set(dead_reason.values())),
                        'history_tail': R.witness(12)})
    finally:
        sim.teardown()


def run_block(rec, case):
    """A session() block during which the session ends (the application
    disconnects it inside the block, or its client says goodbye meanwhile):
    leaving the block is a use of session() for an id that has ended - it
    raises KeyError and nothing written in the block survives."""
    srv, how = case['block']
    rec.evaluations += 1
    rec.count('session_blocks_spanning_the_end')
    rec.key('block/%s/%s' % (srv, how))
    sim = scen.make_sim(srv, server_kwargs={'ping_interval': 5,
                                            'ping_timeout': 3})

    def V(key, msg):
        rec.viol(key, msg + ' | SESSION BLOCK SPANNING THE END (%s) server=%s'
                 % (how, srv), case)
    try:
        h = sim.open_polling()
        other = sim.open_polling()
        sim.session_save(other.sid, {'owner': 'other'})
        p = sim.poll(h)         # a pending reader (keeps K1 out of the way)
        sim.quiesce()
        if how == 'disconnect-inside':
            def inside():
                return sim.server.disconnect(h.sid)
        elif how == 'client-close-inside':
            def inside():
                sim.post(h, '1')
                if srv == 'T':
                    sim.server.sleep(0.25)
                    return None
                return asyncio_sleep(0.25)
        else:   # control: nothing ends the session
            def inside():
                return None
        t = sim.session_block(h.sid, inside)
        sim.quiesce()
        sim.advance(1)
        if not t.done:
            V('session-block-hangs', 'the block did not finish: %s' %
              scen.hang_signature(sim, t))
            return
        if how == 'control':
            if t.result != 'left':
                V('session-block-raises', 'a block on a live session raised '
                  '%s' % t.result)
            return
        rec.count('dead_id_accessors')
        if t.result != 'KeyError':
            V('dead-id-accessor-works', 'leaving a session() block after the '
              'session had ended: %s (expected KeyError)' % (
                  'no exception' if t.result == 'left' else t.result))
        try:
            sim.session_get(h.sid)
            V('dead-id-accessor-works', 'get_session works after the block')
        except KeyError:
            pass
        if sim.session_get(other.sid) != {'owner': 'other'}:
            V('session-isolation', 'another session\'s data changed: %r' % (
                sim.session_get(other.sid),))
    finally:
        sim.teardown()


def asyncio_sleep(dt):
    import asyncio
    return asyncio.sleep(dt)


def plan(tier, seed):
    n = 16
    if tier == 'thorough':
        shards = [{'seed': seed, 'shard': s, 'n': 1200, 'nact': 400, 'maxs': 25}
                  for s in range(n - 2)]
        shards += [{'seed': seed, 'shard': 100 + s, 'n': 30, 'nact': 2000,
                    'maxs': 40} for s in range(2)]
        return shards
    return [{'seed': seed, 'shard': s, 'n': 20, 'nact': 160, 'maxs': 10}
            for s in range(n)]


def run_shard(spec):
    rec = Rec()
    cases = [{'seed': spec['seed'], 'i': spec['shard'] * 1000000 + k,
              'nact': spec['nact'], 'maxs': spec['maxs']}
             for k in range(spec['n'])]
    for c in cases[::2]:
        c['aio'] = 'H'
    for c in cases[2::4]:
        c['aio'] = 'N'     # ... and behind the tornado adapter
    for c in cases[1::3]:
        c['tws'] = True    # threaded server: the real simple_websocket driver
    if spec['shard'] == 0:
        scen.run_cases(rec, [{'block': [srv, how]} for srv in 'TAHN'
                             for how in ('disconnect-inside',
                                         'client-close-inside', 'control')],
                       run_block)
    scen.run_cases(rec, cases, run_history)
    return rec.result()


def replay(case):
    rec = Rec()
    if 'block' in case:
        run_block(rec, case)
    else:
        run_history(rec, case)
    return rec.violations

"""C13 - origin policy enforced before anything else; CORS headers never
over-grant.

Monitor: reference predicate allowed(config, request) from the statement;
spies installed from the harness on the real server object (session-table
access recorder, id generator counter, handler log); header oracle on every
response of the run.
"""
import itertools

from vf import gen, scen
from vf.rec import Rec

PROPERTY = 'C13'
LEVEL = 'exploration'
RULE = ('cross product cors_allowed_origins(6 forms) x cors_credentials(2) x '
        'Origin(absent, empty, and for every allowed value of the cell: exact, '
        'prefix, suffix, extra label, case change, other scheme, explicit default port, '
        'trailing slash, path, surrounding blank; null; foreign) x '
        'Host/scheme/X-Forwarded-* (8 shapes) x request kind(open, open-ws, '
        'poll, post, upgrade, options) x server(2). thorough = whole grid, '
        'quick = seeded sample. non-trivial = the Origin header is present '
        '(refusal or header oracle decided something); distinct = distinct '
        'cells; plus seeded small mutations of allowed origins (1200 quick, '
        '120000 thorough), two Origin header lines (allowed + disallowed, '
        'both orders), and sequences of 3..8 requests on one server reached '
        'under three host names / with a predicate whose answer changes; '
        'servers: threaded, asyncio behind ASGI, asyncio behind aiohttp '
        '(incl. a TLS listener)')
ASSUMPTIONS = ['own origin = scheme://Host with the scheme of the gateway '
               '(wsgi.url_scheme / ASGI scope scheme); forwarded origin = '
               'first entries of X-Forwarded-Proto/Host',
               'only the refusal direction is judged (statement); allowed '
               'origins that are refused are counted, not judged']
REQUIRED = ['must_refuse', 'spies_zero', 'header_oracle', 'allowed_seen']
SHARD_TIMEOUT = {'quick': 300, 'thorough': 3000}

CFG = ['none', 'star', 'str', 'list', 'callable', 'empty']
ENV = ['plain', 'https', 'nohost', 'xfp', 'xfh', 'xfboth', 'xflists',
       'hostport']
KINDS = ['open', 'open-ws', 'poll', 'post', 'upgrade', 'options']
VARIANTS = ['absent', 'empty', 'exact', 'prefix', 'suffix', 'label', 'case',
            'port', 'slash', 'path', 'blank', 'null', 'foreign', 'forwarded',
            'second', 'swapscheme', 'xf-second-host', 'xf-second-proto']
SRV = ['T', 'A', 'H', 'N']  # H / N: the asyncio server behind the real aiohttp / tornado adapter
PRED_OK = 'http://pred.test'
HYBRID_KEY = {'A': 'asgi-xfp-host-hybrid-origin',
              'H': 'aiohttp-xfp-host-hybrid-origin', 'T': 'hybrid-origin',
              'N': 'tornado-xfp-host-hybrid-origin'}


def cfg_value(name):
    return {'none': None, 'star': '*', 'str': 'http://allowed.test',
            'list': ['http://a.test', 'https://b.test:8443'],
            'callable': (lambda o: o == PRED_OK), 'empty': []}[name]


def env_shape(name):
    """-> (scheme, host, extra headers)"""
    if name == 'plain':
        return 'http', 'srv.test', {}
    if name == 'https':
        return 'https', 'srv.test', {}
    if name == 'nohost':
        return 'http', None, {}
    if name == 'xfp':
        return 'http', 'srv.test', {'X-Forwarded-Proto': 'https'}
    if name == 'xfh':
        return 'http', 'srv.test', {'X-Forwarded-Host': 'proxy.test'}
    if name == 'xfboth':
        return 'http', 'srv.test', {'X-Forwarded-Proto': 'https',
                                    'X-Forwarded-Host': 'proxy.test'}
    if name == 'xflists':
        return 'http', 'srv.test', {'X-Forwarded-Proto': 'https, http',
                                    'X-Forwarded-Host': 'proxy.test, in.test'}
    return 'http', 'srv.test:8080', {}


def default_allowed(scheme, host, xh):
    out = []
    if host is not None:
        out.append('%s://%s' % (scheme, host))
        if xh:
            p = xh.get('X-Forwarded-Proto', scheme).split(',')[0].strip()
            h = xh.get('X-Forwarded-Host', host).split(',')[0].strip()
            out.append('%s://%s' % (p, h))
    return out


def allowed_values(cfgname, scheme, host, xh):
    if cfgname == 'none':
        return default_allowed(scheme, host, xh)
    if cfgname == 'star':
        return ['http://any.test']
    if cfgname == 'str':
        return ['http://allowed.test']
    if cfgname == 'list':
        return ['http://a.test', 'https://b.test:8443']
    if cfgname == 'callable':
        return [PRED_OK]
    return []


def is_allowed(cfgname, origin, scheme, host, xh):
    if cfgname == 'star' or cfgname == 'empty':
        return True
    if cfgname == 'callable':
        return origin == PRED_OK
    return origin in allowed_values(cfgname, scheme, host, xh)


def fuzz_origin(base, n):
    """A seeded small mutation of an allowed origin (never equal to it)."""
    import random
    r = random.Random(n)
    o = base
    for _ in range(r.randint(1, 3)):
        k = r.randrange(9)
        i = r.randrange(len(o) + 1)
        if k == 0 and o:
            o = o[:max(0, i - 1)] + o[i:]               # drop a character
        elif k == 1:
            o = o[:i] + r.choice('.-:/@#?%\\xX0 ') + o[i:]  # insert one
        elif k == 2 and o:
            j = min(i, len(o) - 1)
            o = o[:j] + o[j].swapcase() + o[j + 1:]     # flip case
        elif k == 3:
            o = o + r.choice(['.', '/', ':80', ':443', '.evil.test', '@evil',
                              '#', '?', '%00', ',http://evil.test'])
        elif k == 4:
            o = r.choice(['evil.', 'x', ' ', 'http://evil.test,', '//']) + o
        elif k == 5:
            o = o.replace('://', r.choice([':/', ':///', '%3A//', '://@',
                                           '://evil.test@']), 1)
        elif k == 6:
            o = o.replace('.', r.choice(['%2E', '\xb7', '..', '']), 1)
        elif k == 7:
            o = o.replace('http', r.choice(['HTTP', 'https', 'ws', 'htp']), 1)
        else:
            o = o[::-1] if len(o) < 4 else o[:4] + o[4:][::-1]
    return o if o != base else base + '.'


def make_origin(variant, vals):
    base = vals[0] if vals else 'http://srv.test'
    if variant.startswith('fuzz:'):
        return fuzz_origin(vals[int(variant.split(':')[2]) % len(vals)]
                           if vals else base, int(variant.split(':')[1]))
    if variant == 'absent':
        return None
    if variant == 'empty':
        return ''
    if variant == 'exact':
        return base
    if variant == 'second':
        return vals[-1] if vals else None
    if variant == 'forwarded':
        return vals[1] if len(vals) > 1 else None
    if variant == 'prefix':
        return base[:-1]
    if variant == 'suffix':
        return base + 'x'
    if variant == 'label':
        return base.replace('://', '://sub.')
    if variant == 'case':
        return base.upper() if base.upper() != base else base.lower()
    if variant == 'port':
        return base + (':443' if base.startswith('https') else ':80')
    if variant == 'slash':
        return base + '/'
    if variant == 'path':
        return base + '/p'
    if variant == 'blank':
        return ' ' + base
    if variant == 'null':
        return 'null'
    if variant == 'swapscheme':
        return ('http' + base[5:]) if base.startswith('https') else \
            ('https' + base[4:])
    return 'http://evil.test'


class SpyDict(dict):
    def __init__(self, *a):
        super().__init__(*a)
        self.accesses = 0

    def _hit(self):
        self.accesses += 1

    def __getitem__(self, k):
        self._hit()
        return super().__getitem__(k)

    def __setitem__(self, k, v):
        self._hit()
        return super().__setitem__(k, v)

    def __delitem__(self, k):
        self._hit()
        return super().__delitem__(k)

    def __contains__(self, k):
        self._hit()
        return super().__contains__(k)

    def __iter__(self):
        self._hit()
        return super().__iter__()

    def __len__(self):
        self._hit()
        return super().__len__()

    def get(self, *a):
        self._hit()
        return super().get(*a)

    def copy(self):
        self._hit()
        return dict(super().items())

    def values(self):
        self._hit()
        return super().values()

    def items(self):
        self._hit()
        return super().items()

    def keys(self):
        self._hit()
        return super().keys()


def was_refused(rec, t, ws, srv, desc, case):
    """Whether the request was refused the way the statement says (400; on
    an ASGI websocket scope: closed without accept). On the tornado engine a
    refused WebSocket request never carries 400 - tornado's own origin check
    (installed by the adapter for string / list configurations) answers 403,
    and what the package itself refuses had been answered 101 by tornado and
    is closed instead: that is known finding K13, reported here, and the
    request counts as refused so that the rest of the oracle (no session, no
    handler, no CORS grant) is still applied to it."""
    if not t.done:
        return False
    late = getattr(t, 'late_refusal', False)
    if t.code == 400 and not late:
        return True
    if ws is not None and srv == 'A' and not ws.accepted and ws.server_closed:
        return True
    if srv == 'N' and ws is not None and not ws.accepted and (
            (late and t.code == 400) or t.code == 403):
        rec.count('late_refusals_on_tornado')
        rec.viol('tornado-websocket-refusal-status', 'WebSocket request with '
                 'a disallowed Origin answered %r on the wire (the package '
                 'meant %r), connection closed=%r: %s' % (
                     getattr(t, 'wire_status', t.status), t.status,
                     ws.server_closed, desc), case)
        return True
    return False



def run_cell(rec, cell):
    icfg, icred, ivar, ienv, ikind, isrv = cell
    cfgname, cred = CFG[icfg], bool(icred)
    # (ivar may be a 'fuzz:<seed>:<which allowed value>' string)
    variant = ivar if isinstance(ivar, str) else VARIANTS[ivar]
    envname, kind, srv = ENV[ienv], KINDS[ikind], SRV[isrv]
    scheme, host, xh = env_shape(envname)
    vals = allowed_values(cfgname, scheme, host, xh)
    origin = make_origin(variant, vals)
    if variant in ('xf-second-host', 'xf-second-proto'):
        # only the FIRST entries of multi-valued X-Forwarded-* headers count
        protos = [x.strip() for x in (xh or {}).get(
            'X-Forwarded-Proto', scheme).split(',')]
        hosts = [x.strip() for x in (xh or {}).get(
            'X-Forwarded-Host', host or '').split(',')]
        origin = None
        if variant == 'xf-second-host' and len(hosts) > 1:
            origin = '%s://%s' % (protos[0], hosts[1])
        if variant == 'xf-second-proto' and len(protos) > 1:
            origin = '%s://%s' % (protos[1], hosts[0])
        if origin in vals:
            origin = None
    if origin is None and variant != 'absent':
        return
    if srv in scen.HTTPB and (host is None or (origin is not None and (
            origin != origin.strip() or not origin.isascii()))):
        # an HTTP/1.1 request without Host never reaches the server, blanks
        # around a header value are not part of the value on the wire, and
        # what a real HTTP stack does to non-ASCII header bytes on the way in
        # and out is its own business
        return
    case = {'cell': list(cell)}
    rec.evaluations += 1
    sim = scen.make_sim(srv, server_kwargs={
        'cors_allowed_origins': cfg_value(cfgname), 'cors_credentials': cred},
        host=host, scheme=scheme)
    try:
        # population is prepared with a plain allowed request (no Origin)
        h = sim.open_polling(headers=xh)
        if h.sid is None:
            rec.inconclusive.append('population open failed: %r %r' % (
                h.open_ticket.status, h.open_ticket.exc))
            return
        sim.app_call('send', h.sid, 'queued')
        sim.quiesce()
        spy = SpyDict(sim.server.sockets)
        sim.server.sockets = spy
        gen_calls = [0]
        orig_gen = sim.server.generate_id

        def counting_gen():
            gen_calls[0] += 1
            return orig_gen()
        sim.server.generate_id = counting_gen
        n_events = len(sim.events)
        hd = dict(xh)
        if origin is not None:
            hd['Origin'] = origin
        # headers of other proxy conventions that name the disallowed
        # origin's host / scheme: the statement names X-Forwarded-Proto and
        # X-Forwarded-Host only, nothing else widens the default policy
        other = None
        if origin and origin.isascii() and origin == origin.strip() and \
                '://' in origin and sum(map(ord, origin)) % 2 == 0 and \
                not is_allowed(cfgname, origin, scheme, host, xh):
            osch, _, ohost = origin.partition('://')
            if ohost and all(c not in ohost for c in ' ,;"\\\r\n'):
                other = [('Forwarded', 'for=10.0.0.1;host=%s;proto=%s' % (
                              ohost, osch)),
                         ('Forwarded', 'host="%s"' % ohost),
                         ('X-Original-Host', ohost),
                         ('X-Forwarded-Server', ohost),
                         ('X-Host', ohost)][(len(origin) + ikind) % 5]
                hd[other[0]] = other[1]
                rec.count('other_proxy_headers')
        ws = None
        if kind == 'open':
            t = sim.request('GET', {'transport': 'polling', 'EIO': '4'}, hd)
        elif kind == 'open-ws':
            ws, t = sim.ws_request({'transport': 'websocket', 'EIO': '4'}, hd)
        elif kind == 'poll':
            t = sim.poll(h, headers=hd)
        elif kind == 'post':
            t = sim.post(h, '4hello', headers=hd)
        elif kind == 'upgrade':
            ws, t = sim.upgrade_ws(h, headers=hd)
        else:
            t = sim.request('OPTIONS', {'transport': 'polling', 'EIO': '4'},
                            hd)
        sim.quiesce()
        desc = ('cors_allowed_origins=%s credentials=%r Origin=%r env=%s '
                '(scheme %s host %r fwd %r%s) request=%s server=%s' % (
                    cfgname, cred, origin, envname, scheme, host, xh,
                    ' + %s: %s' % other if other else '', kind, srv))
        checked = cfgname != 'empty' and bool(origin)
        # mechanism of known finding K6: the asyncio drivers report
        # X-Forwarded-Proto as wsgi.url_scheme, so with both forwarded headers
        # present the hybrid <X-Forwarded-Proto>://<Host> is let through
        hybrid = (srv in ('A', 'H', 'N') and cfgname == 'none' and
                  host is not None and
                  'X-Forwarded-Proto' in xh and 'X-Forwarded-Host' in xh and
                  origin == '%s://%s' % (xh['X-Forwarded-Proto'], host))
        ok = is_allowed(cfgname, origin, scheme, host, xh) if origin else True
        # mechanism of known finding K12: the ASGI adapter decodes header
        # values as UTF-8 and SKIPS a header it cannot decode, so an Origin
        # with such bytes is dropped and the request goes on as if it had none
        undecodable = False
        if srv == 'A' and origin:
            try:
                origin.encode('latin-1').decode('utf-8')
            except UnicodeError:
                undecodable = True
        if origin is not None:
            rec.key('cell/' + ','.join(map(str, cell)))
        if checked and not ok:
            rec.count('must_refuse')
            refused = was_refused(rec, t, ws, srv, desc, case)
            if not refused:
                rec.viol(HYBRID_KEY[srv] if hybrid else
                         'asgi-undecodable-origin-dropped' if undecodable else
                         'disallowed-origin-admitted-' + (
                             'default' if cfgname == 'none' else cfgname),
                    'disallowed Origin answered status=%r accepted=%r exc=%r: '
                    '%s' % (t.status, ws.accepted if ws else None, t.exc,
                            desc), case)
            if refused:
                rec.count('spies_zero')
            if refused and (spy.accesses or gen_calls[0] or
                            len(sim.events) != n_events):
                rec.viol('work-before-origin-check', 'before refusing the '
                         'origin the server made %d session-table accesses, %d'
                         ' id generations, %d handler calls: %s' % (
                             spy.accesses, gen_calls[0],
                             len(sim.events) - n_events, desc), case)
        elif origin:
            rec.count('allowed_seen')
            if t.done and t.code == 400 and kind in ('open', 'poll', 'post'):
                rec.count('allowed_but_refused')
        # header oracle on the response
        if t.headers is not None:
            rec.count('header_oracle')
            acao = t.header_all('Access-Control-Allow-Origin')
            acac = t.header_all('Access-Control-Allow-Credentials')
            anyc = [k for k, v in t.headers
                    if k.lower().startswith('access-control-')]
            if cfgname == 'empty':
                if anyc:
                    rec.viol('cors-header-when-disabled', 'CORS headers %r '
                             'with cors_allowed_origins=[]: %s' % (anyc, desc),
                             case)
            else:
                for v in acao:
                    if origin is None or v != origin or not ok:
                        rec.viol(HYBRID_KEY[srv] if hybrid
                                 else 'acao-over-grant',
                                 'Access-Control-Allow-'
                                 'Origin %r for request Origin %r (allowed=%r)'
                                 ': %s' % (v, origin, ok, desc), case)
                if acac and not cred:
                    rec.viol('acac-when-disabled', 'Allow-Credentials emitted '
                             'with cors_credentials=False: %s' % desc, case)
        if cfgname == 'empty' and origin and t.done and (
                (t.code == 400 and kind in ('open', 'post', 'poll')) or
                (ws is not None and not ws.accepted and
                 t.code in (400, 403))):
            rec.viol('origin-check-when-disabled', 'request refused although '
                     'origin checking is disabled: %s' % desc, case)
        if rec.evaluations % 1201 == 1:
            rec.sample({'request': desc, 'allowed': ok, 'status': t.status})
    finally:
        sim.teardown()


def run_dup_origin(rec, case):
    """A request bearing TWO Origin header lines, one allowed and one not
    (in either order; the disallowed one a textual part of the allowed one in
    half of the cases): it bears an Origin that is not allowed, so it is
    refused like any other - no session, no handler, no CORS grant."""
    cfgname, srv, kind, order, shape = case['dup']
    rec.evaluations += 1
    rec.count('duplicate_origin_requests')
    rec.key('dup/' + '/'.join(case['dup']))
    vals = allowed_values(cfgname, 'http', 'srv.test', {})
    good = vals[0]
    bad = good[:-1] if shape == 'substring' else 'http://evil.test'
    origins = [good, bad] if order == 'allowed-first' else [bad, good]
    sim = scen.make_sim(srv, server_kwargs={
        'cors_allowed_origins': cfg_value(cfgname)})
    desc = 'TWO Origin headers %r cors_allowed_origins=%s request=%s ' \
        'server=%s' % (origins, cfgname, kind, srv)
    try:
        h = sim.open_polling()
        n0, tbl = len(sim.events), sim.table_sids()
        hd = {'Origin': origins}
        ws = None
        if kind == 'open':
            t = sim.request('GET', {'transport': 'polling', 'EIO': '4'}, hd)
        elif kind == 'open-ws':
            ws, t = sim.ws_request({'transport': 'websocket', 'EIO': '4'}, hd)
        elif kind == 'poll':
            sim.app_call('send', h.sid, 'queued')
            sim.quiesce()
            t = sim.poll(h, headers=hd)
        else:
            t = sim.post(h, '4hello', headers=hd)
        sim.quiesce()
        rec.count('must_refuse')
        refused = was_refused(rec, t, ws, srv, desc, case)
        if not refused:
            rec.viol('disallowed-origin-admitted-duplicate', 'status=%r '
                     'accepted=%r: %s' % (t.status, ws.accepted if ws else
                                          None, desc), case)
        if len(sim.events) != n0 or sim.table_sids() != tbl:
            rec.viol('disallowed-origin-admitted-duplicate', 'events %r / '
                     'table changed: %s' % (
                         [e['ev'] for e in sim.events[n0:]], desc), case)
        acao = t.header_all('Access-Control-Allow-Origin') if t.headers \
            else []
        if acao:
            rec.viol('acao-over-grant', 'Access-Control-Allow-Origin %r: %s'
                     % (acao, desc), case)
    finally:
        sim.teardown()


def run_origin_sequence(rec, case):
    """Several requests on ONE server that is reached under several host
    names (default policy: the request's own scheme://host; or a predicate
    whose answer changes between requests): every request is judged against
    ITS OWN Host header / the predicate's answer at that moment - what an
    earlier request was granted plays no part."""
    import random
    srv, cfgname, sd = case['oseq']
    r = random.Random(sd)
    rec.evaluations += 1
    rec.count('origin_sequences')
    rec.key('oseq/%s/%s/%d' % (srv, cfgname, sd % 7))
    hosts = ['srv.test', 'evil.example', 'other.test:8080']
    state = {'ok': set(), 'boom': set()}
    kw = {}
    if cfgname == 'callable':
        def predicate(o):
            # (an application predicate may fail, e.g. its store is down:
            # that is no permission)
            if o in state['boom']:
                raise RuntimeError('origin store unavailable')
            return o in state['ok']
        kw['cors_allowed_origins'] = predicate
    sim = scen.make_sim(srv, server_kwargs=kw)
    log = []
    try:
        h = None
        for step in range(r.randint(3, 8)):
            host = r.choice(hosts)
            origin = 'http://' + r.choice(hosts)
            # a third of the requests come through a proxy that names the
            # host it was reached under (X-Forwarded-Host only, so that the
            # scheme conventions of known findings K6 / K11 stay out of it)
            xfh = r.choice(hosts) if r.random() < 0.35 else None
            if cfgname == 'callable':
                state['ok'] = set(r.sample(['http://' + x for x in hosts],
                                           r.randint(0, 2)))
                state['boom'] = {origin} if r.random() < 0.25 else set()
                ok = origin in state['ok'] and not state['boom']
            else:
                ok = origin in ('http://' + host,
                                ('http://' + xfh) if xfh else None)
            sim.host = host
            kind = r.choice(['open', 'open-ws', 'poll'])
            if kind == 'poll' and h is None:
                kind = 'open'
            hd = {'Origin': origin}
            if xfh:
                hd['X-Forwarded-Host'] = xfh
            ws = None
            n0, tbl = len(sim.events), sim.table_sids()
            if kind == 'open':
                t = sim.request('GET', {'transport': 'polling', 'EIO': '4'},
                                hd)
            elif kind == 'open-ws':
                ws, t = sim.ws_request({'transport': 'websocket',
                                        'EIO': '4'}, hd)
            else:
                sim.app_call('send', h.sid, 'q%d' % step)
                sim.quiesce()
                t = sim.poll(h, headers=hd)
            sim.quiesce()
            log.append((kind, host, xfh, origin,
                        'predicate raises' if state['boom'] else ok,
                        t.status))
            desc = ('request #%d (%s, Host %s, X-Forwarded-Host %s, Origin %s) '
                    'of the sequence %r '
                    'cors_allowed_origins=%s server=%s' % (
                        step + 1, kind, host, xfh, origin, log, cfgname, srv))
            refused = was_refused(rec, t, ws, srv, desc, case) if not ok \
                else (t.done and (t.code in (400, 403) or (
                    ws is not None and not ws.accepted and ws.server_closed)))
            if state['boom'] and t.done and (
                    t.exc is not None or t.code == 500 or
                    getattr(t, 'no_response', False)):
                refused = True      # the predicate's failure surfaced
            desc = ('request #%d (%s, Host %s, X-Forwarded-Host %s, Origin %s) '
                    'of the sequence %r '
                    'cors_allowed_origins=%s server=%s' % (
                        step + 1, kind, host, xfh, origin, log, cfgname, srv))
            if not ok:
                rec.count('must_refuse')
                if not refused or len(sim.events) != n0 or \
                        sim.table_sids() != tbl:
                    rec.viol('disallowed-origin-admitted-after-earlier-grant',
                             'status=%r, %d new events: %s' % (
                                 t.status, len(sim.events) - n0, desc), case)
                    return
            else:
                rec.count('allowed_seen')
                if refused:
                    rec.viol('allowed-origin-refused-in-sequence', desc, case)
                    return
                if kind == 'open' and t.code == 200 and h is None:
                    from vf.simbase import decode_payload, Handle
                    h = Handle(0)
                    h.sid = decode_payload(t.text())[0][1]['sid']
            acao = t.header_all('Access-Control-Allow-Origin') \
                if t.headers else []
            if acao and (not ok or acao != [origin]):
                rec.viol('acao-over-grant', 'Access-Control-Allow-Origin %r: '
                         '%s' % (acao, desc), case)
                return
    finally:
        sim.teardown()


def plan(tier, seed):
    rng = gen.mkrng('c13', seed)
    allc = list(itertools.product(range(len(CFG)), range(2),
                                  range(len(VARIANTS)), range(len(ENV)),
                                  range(len(KINDS)), range(len(SRV))))
    if tier == 'thorough':
        chosen = allc
    else:
        # the default policy under every environment shape that changes what
        # "the request's own origin" is - all variants, request kinds and
        # gateways - is small enough to be always included
        fam = [c for c in allc if CFG[c[0]] == 'none' and c[1] == 0 and
               ENV[c[3]] in ('https', 'xfp', 'xfboth', 'hostport')]
        chosen = fam + rng.sample(allc, 6000)
    # seeded mutations of allowed origins
    for k in range(120000 if tier == 'thorough' else 1200):
        chosen.append((rng.randrange(len(CFG)), rng.randrange(2),
                       'fuzz:%d:%d' % (seed * 1000003 + k, rng.randrange(4)),
                       rng.randrange(len(ENV)), rng.randrange(len(KINDS)),
                       rng.randrange(len(SRV))))
    rng.shuffle(chosen)
    n = 16
    shards = [{'cells': chosen[i::n], 'all': tier == 'thorough'}
              for i in range(n)]
    shards[1]['oseqs'] = [
        {'oseq': [srv, cfg, seed * 100003 + k]} for srv in SRV
        for cfg in ('none', 'callable')
        for k in range(2000 if tier == 'thorough' else 40)]
    shards[0]['dups'] = [
        {'dup': [cfg, srv, kind, order, shape]}
        for cfg in ('none', 'str', 'list', 'callable') for srv in SRV
        for kind in ('open', 'open-ws', 'poll', 'post')
        for order in ('allowed-first', 'allowed-last')
        for shape in ('substring', 'foreign')]
    return shards


def run_shard(spec):
    rec = Rec()
    scen.run_cases(rec, spec.get('dups', []), run_dup_origin)
    scen.run_cases(rec, spec.get('oseqs', []), run_origin_sequence)
    scen.run_cases(rec, [tuple(c) for c in spec['cells']], run_cell)
    if spec.get('all'):
        rec.extra['exhaustive'] = True
    return rec.result()


def replay(case):
    rec = Rec()
    if 'dup' in case:
        run_dup_origin(rec, case)
        return rec.violations
    if 'oseq' in case:
        run_origin_sequence(rec, case)
        return rec.violations
    run_cell(rec, tuple(case['cell']))
    return rec.violations

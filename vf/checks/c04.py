"""C04 - client->server packets are acted on exactly once, in order, by type.

Monitor: a reference dispatcher written from the statement is applied to every
generated body / frame sequence and compared with the application handler log
recorded at the boundary (sequence for synchronous handlers, multiset for
background handlers), plus liveness and the NOOP answer to UPGRADE.
"""
import collections

from vf import gen, hist, scen
from vf.rec import Rec

PROPERTY = 'C04'
LEVEL = 'exploration'
RULE = ('seeded bodies of 1..18 packets over all ten type digits (0..9) x '
        'payload kinds (text/JSON/binary, unique ids) x position of CLOSE / '
        'invalid type / undecodable piece, delivered by POST (plain or in the '
        'percent-encoded d= form), by WebSocket '
        'frames, and by POST during an upgrade handshake, to one of two '
        'sessions, plus bodies for unknown / closed / rejected sessions; both '
        'servers x {synchronous, background} handlers x {well-behaved, failing '
        'with Exception / BaseException at seeded indices}; threaded server under '
        'seeded random schedules. distinct = distinct (server, handler mode, '
        'path, abstract body shape) where the shape is the sequence of packet '
        'classes m/p/u/c/i/g')
ASSUMPTIONS = ['a poll is kept pending on polling sessions (as real clients '
               'do) so that error paths are not blocked by known finding K1; '
               'mid-upgrade POSTs that hit K1 are judged on events and '
               'liveness only (the hang itself is C15\'s subject)',
               'after an undecodable WebSocket frame the fate of the '
               'connection is not judged here']
REQUIRED = ['bodies', 'failing_handlers', 'form_encoded_bodies', 'message_exactly_once', 'invalid_type', 'close_packet',
            'whole_body_rejected', 'dead_session_body', 'upgrade_noop']
SHARD_TIMEOUT = {'quick': 400, 'thorough': 3000}


def gen_items(rng, path):
    n = rng.choice([1, 2, 3, 5, 8, 12, 16, 17, 18]) if rng.random() < 0.5 \
        else rng.randint(1, 8)
    items = []
    for _ in range(n):
        k = rng.random()
        if k < 0.04:
            items.append(('e',))        # MESSAGE with empty binary payload
        elif k < 0.62:
            items.append(('m', rng.choice(['text', 'json', 'binary', 'text',
                                           'json', 'binary', 'float'])))
        elif k < 0.72:
            items.append(('p',))
        elif k < 0.78:
            items.append(('u',))
        elif k < 0.84:
            items.append(('c',))
        elif k < 0.95:
            items.append(('i', rng.choice('026789'),
                          rng.choice(['', 'x', '{"a":1}'])))
        elif path != 'ws':
            items.append(('g', rng.choice(['', 'x', 'bA'])))
    if path == 'ws' and rng.random() < 0.08:
        items.append(('g', rng.choice(['x', 'bA'])))
    return items or [('m', 'text')]


def run_case(rec, case):
    rng = gen.mkrng('c04', case['seed'], case['i'])
    srv = rng.choice(['T', 'A'])
    if srv == 'A' and case.get('aio'):
        srv = case['aio']    # asyncio server behind the aiohttp / tornado adapter
        rec.count('histories_on_aiohttp_adapter')
    asyncm = rng.random() < 0.5
    path = rng.choice(['post', 'post', 'ws', 'ws', 'ws-upgraded',
                       'post-mid-upgrade', 'dead'])
    rec.evaluations += 1
    # a share of the cases has message handlers that fail (Exception or
    # BaseException-only) at seeded event indices: every other packet must
    # still be processed exactly once, in order
    hcfg = {}
    if rng.random() < 0.3:
        hcfg = {'boom': {'message:%d' % rng.randint(0, 6): True
                         for _ in range(rng.randint(1, 3))},
                'boom_base': rng.random() < 0.4}
        if not hcfg['boom_base'] and rng.random() < 0.4:
            hcfg['boom_type'] = 'typeerror'
        if rng.random() < 0.2:
            hcfg['boom']['message:*'] = True
        rec.count('failing_handlers')
    if case.get('mut'):
        # handlers that change the object they are handed, and bodies that
        # repeat one and the same JSON message
        hcfg = dict(hcfg, mutate_payloads=True)
        rec.count('mutating_handlers')
    # synchronous handlers that take a while: on a WebSocket the frames pile
    # up in front of them, and the client closes right after its last frame
    case['_slow'] = (not asyncm) and path in ('ws', 'ws-upgraded') and \
        rng.random() < 0.3
    if case['_slow']:
        hcfg = dict(hcfg, suspend={'message': 0.05})
    sim = scen.make_sim(srv, real_ws_driver=bool(case.get('tws')),
                        server_kwargs={'async_handlers': asyncm},
                        handler_cfg=hcfg,
                        policy='random', seed=rng.randrange(1 << 30),
                        yield_prob=rng.choice([0.0, 0.3]),
                        async_handlers_coro=rng.random() < 0.7)
    R = hist.Runner(sim)

    def V(key, msg):
        rec.viol(key, msg + ' | server=%s background_handlers=%r path=%s '
                 'failing_handlers=%r body=%r' % (
                     srv, asyncm, path, hcfg, case.get('_body')), case)
    try:
        _run(rec, rng, sim, R, srv, asyncm, path, V, case)
    finally:
        sim.teardown()


def _run(rec, rng, sim, R, srv, asyncm, path, V, case):
    if path == 'dead':
        rec.count('dead_session_body')
        other = R.open('polling', autopoll=True)
        kind = rng.choice(['unknown', 'closed', 'rejected'])
        if kind == 'unknown':
            sid = 'unknownsidAAAAAAAAAA'
        elif kind == 'closed':
            s = R.open('polling')
            R.post_raw(s, '1')
            sim.quiesce()
            sid = s.sid
        else:
            sim.connect_script = [None] * sim.nconnect + [False]
            R.open('polling')
            sid = [e for e in sim.events if e['ev'] == 'connect'][-1]['sid']
        n0 = len(sim.events)
        fake = type('H', (), {'sid': sid})()
        case['_body'] = '4U9.1|t (sid %s)' % kind
        tk = sim.post(fake, '4U9.1|t' + gen.SEP + '4U9.2|t')
        sim.quiesce()
        new = sim.events[n0:]
        if new:
            V('event-from-dead-session-body', 'a body naming a %s session '
              'produced events %r' % (kind, new))
        if not tk.done or tk.code != 400:
            V('dead-session-body-status', 'body naming a %s session answered '
              '%r exc=%r' % (kind, tk.status, tk.exc))
        rec.key('%s/%s/dead/%s' % (srv, asyncm, kind))
        return
    # two sessions; the target is the second one
    other = R.open('polling', autopoll=True)
    if path in ('ws',):
        s = R.open('websocket')
    else:
        s = R.open('polling', autopoll=(path == 'post'))
    if not s.accepted:
        V('open-failed', 'could not open')
        return
    if path == 'ws-upgraded':
        ws, ok = sim.do_upgrade(s.h)
        if not ok:
            V('upgrade-failed', 'could not upgrade')
            return
        s.ws, s.mode = ws, 'websocket'
        ws.established = True
        ws.on_frame = lambda c, fr: R._on_frame(s, c, fr, True)
    if path == 'post-mid-upgrade':
        ws = R.upgrade_start(s, 'manual')
        sim.quiesce()
        ws.send('2probe')
        sim.quiesce()
    items = gen_items(rng, 'ws' if path.startswith('ws') else 'post')
    if case.get('_slow') and path.startswith('ws'):
        # (the client will be gone by the time its frames are worked off: a
        # packet the server ANSWERS - UPGRADE -> NOOP - makes it write to a
        # closed connection, which legitimately ends the session before the
        # rest is read; such packets are left out of these bursts)
        items = [i for i in items if i[0] != 'u'] or [('m', 'text')]
    pieces, expect, expect_all = [], [], []
    fate = 'alive'          # alive | closed | failed
    whole_reject = False
    on_ws = path.startswith('ws')
    if not on_ws:
        if len(items) > 16 or any(i[0] == 'g' for i in items):
            whole_reject = True
    noop_expected = 0
    for it in items:
        if it[0] == 'm':
            if case.get('mut') and it[1] == 'json':
                data, wire = {'op': 'inc', 'n': [1]}, '4{"op":"inc","n":[1]}'
            else:
                uid, data, wire = R.up_payload(s, it[1])
            if on_ws and it[1] == 'binary':
                # a driver may deliver a binary frame as bytes or as a
                # mutable buffer; the handler gets bytes either way
                sim.raw_bytearray = True
                pieces.append(bytes(data) if rng.random() < 0.5
                              else bytearray(data))
            else:
                pieces.append(wire)
            expect_all.append(('message', gen.expected_roundtrip(data)))
            if fate == 'alive' and not whole_reject:
                expect.append(('message', gen.expected_roundtrip(data)))
        elif it[0] == 'e':
            pieces.append(b'' if on_ws else 'b')
            expect_all.append(('message', b''))
            if fate == 'alive' and not whole_reject:
                expect.append(('message', b''))
        elif it[0] == 'p':
            pieces.append('3')
        elif it[0] == 'u':
            pieces.append('5')
            if fate == 'alive' and not whole_reject:
                noop_expected += 1
        elif it[0] == 'c':
            pieces.append('1')
            if fate == 'alive' and not whole_reject:
                fate = 'closed'
        elif it[0] == 'i':
            pieces.append(it[1] + it[2])
            if fate == 'alive' and not whole_reject and not on_ws:
                fate = 'failed'
        else:
            pieces.append(it[1])
            if on_ws and fate == 'alive':
                fate = 'garbage'
    shape = ''.join(i[0] for i in items)
    case['_body'] = [p if len(repr(p)) < 40 else '..' for p in pieces]
    rec.count('bodies')
    rec.key('%s/%s/%s/%s' % (srv, asyncm, path, shape))
    n0 = len(sim.events)
    other_n = len([e for e in sim.events if e['sid'] == other.sid])
    d0 = len(R.delivered_other)
    tk = None
    close_after = on_ws and case.get('_slow')
    if close_after:
        # every frame that was sent before the connection ended is still
        # acted on, exactly once and in order, however long the handlers take
        rec.count('frames_then_close')
        for p in pieces:
            s.ws.send(p)
        s.ws.close()
        sim.quiesce()
        sim.advance(0.05 * len(pieces) + 1)
        sim.quiesce()
    elif on_ws:
        for p in pieces:
            s.ws.send(p)
            if rng.random() < 0.5:
                sim.quiesce()
        sim.quiesce()
    else:
        if fate == 'alive' and not whole_reject and len(pieces) < 14 and \
                case['i'] % 2 == 0:
            # payloads that contain the two characters backslash + n (a
            # Windows path; JSON text with an escaped newline inside a
            # string): they are data like any other, in the plain body and in
            # its form-encoded variant
            for wire, data in (('4C:\\new\\table', 'C:\\new\\table'),
                               ('4{"t":"line1\\nline2"}',
                                {'t': 'line1\nline2'})):
                pieces.append(wire)
                expect.append(('message', data))
                expect_all.append(('message', data))
            rec.count('payloads_with_backslash_n')
        body = gen.SEP.join(pieces)
        if rng.random() < 0.25:
            # the form-encoded variant of the same body (what a JSONP client
            # posts): separators and everything else percent-encoded
            import urllib.parse
            body = 'd=' + urllib.parse.quote(body, safe='')
            rec.count('form_encoded_bodies')
            case['_body'] = ['d= form of'] + case['_body']
        tk = R.post_raw(s, body)
        sim.quiesce()
    got = [e for e in sim.events[n0:] if e['sid'] == s.sid]
    gm = [('message', e['data']) for e in got if e['ev'] == 'message']
    # cross-talk
    if len([e for e in sim.events if e['sid'] == other.sid]) != other_n:
        V('cross-talk', 'events appeared on another session: %r' % (
            [e for e in sim.events[n0:] if e['sid'] == other.sid],))
    if any(e['sid'] not in (s.sid, other.sid) for e in sim.events[n0:]):
        V('cross-talk', 'events for an unknown sid')
    for ev in gm:
        if gen.is_binary(ev[1]) and type(ev[1]) is not bytes:
            V('binary-payload-not-bytes', 'the message handler was given a %s '
              'for a binary payload (the API hands out bytes)' %
              type(ev[1]).__name__)
            break
    rec.count('message_exactly_once', len(expect))
    if whole_reject:
        rec.count('whole_body_rejected')
        if gm:
            V('event-from-rejected-body', 'a body that must be refused as a '
              'whole (%s) produced %d message events' % (
                  'over the packet limit' if len(items) > 16 else
                  'undecodable piece', len(gm)))
        return
    # packets of the same body / frames after a CLOSE are don't-care here
    # (whether anything may follow the disconnect event is C05's subject)
    tail_free = fate == 'closed'
    same_seq = (len(gm) == len(expect) or
                (tail_free and len(gm) >= len(expect))) and all(
        gen.same(a[1], b[1]) for a, b in zip(gm, expect))
    if asyncm:
        def keyf(x):
            return repr(gen.jsonable(x[1]))
        cg, ce = collections.Counter(map(keyf, gm)), \
            collections.Counter(map(keyf, expect))
        call = collections.Counter(map(keyf, expect_all))
        ok = (cg == ce) or (tail_free and not (ce - cg) and not (cg - call))
    else:
        ok = same_seq
    if not ok:
        missing = len(expect) - len(gm)
        kind = 'lost' if missing > 0 else 'duplicated-or-extra' \
            if missing < 0 else 'reordered-or-changed'
        V('dispatch-%s-%s' % (kind, 'ws' if on_ws else 'post'),
          'handler log %r, the reference dispatcher gives %r' % (
              [repr(g[1])[:40] for g in gm], [repr(e[1])[:40]
                                               for e in expect]))
    dis = [e for e in got if e['ev'] == 'disconnect']
    if close_after and fate != 'closed':
        if len(dis) != 1 and fate == 'alive':
            V('frames-then-close-disconnects', 'frames, then the connection '
              'closed: disconnect events %r' % ([d['reason'] for d in dis],))
        return
    if fate == 'closed':
        rec.count('close_packet')
        if len(dis) != 1 or dis[0]['reason'] != 'client disconnect':
            V('close-packet-effect', 'CLOSE packet: disconnect events %r' % (
                [(d['reason']) for d in dis],))
    elif fate == 'failed':
        rec.count('invalid_type')
        hung = tk is not None and not tk.done and \
            scen.hang_signature(sim, tk) == 'close-wait-no-pending-reader'
        if tk is not None and tk.done and tk.code != 400:
            V('invalid-type-accepted-post', 'POST with an undefined / '
              'server-only packet type answered %r' % (tk.status,))
        elif tk is not None and not tk.done and not hung:
            V('invalid-type-hang', 'POST did not complete: %s' %
              scen.hang_signature(sim, tk))
        if len(dis) != 1:
            V('invalid-type-session-alive', 'protocol error in a POST: %d '
              'disconnect events, live=%r' % (len(dis),
                                              s.sid in sim.live_sids()))
    elif fate == 'alive':
        if dis:
            V('session-ended-by-valid-traffic', 'session ended (%r) by a body '
              'of valid packets' % dis[0]['reason'])
        if tk is not None and (not tk.done or tk.code != 200):
            V('valid-body-refused', 'valid body answered %r (done=%r exc=%r)'
              % (tk.status, tk.done, tk.exc))
        if on_ws and any(i[0] == 'i' for i in items):
            rec.count('invalid_type')
        # the session still works: one more message is dispatched
        uid, data, wire = R.up_payload(s, 'text')
        n1 = len(sim.events)
        if on_ws:
            s.ws.send(wire)
        else:
            R.post_raw(s, wire)
        sim.quiesce()
        if not any(e['ev'] == 'message' and e['sid'] == s.sid and
                   e['data'] == data for e in sim.events[n1:]):
            V('session-dead-after-valid-traffic', 'a further message was not '
              'dispatched (ignored types must not stop processing)')
        # UPGRADE -> NOOP in what the client reads next
        if noop_expected and path in ('post', 'ws', 'ws-upgraded'):
            rec.count('upgrade_noop')
            if path == 'post':
                for _ in range(4):      # the client keeps reading
                    ptk = R.poll(s)
                    sim.quiesce()
                    if not ptk.done:
                        break
            noops = [d for d in R.delivered_other[d0:]
                     if d['s'] == s.n and d['type'] == 6]
            if len(noops) < noop_expected:
                V('upgrade-not-answered-noop', '%d UPGRADE packets, client '
                  'read %d NOOP' % (noop_expected, len(noops)))
    if rec.evaluations % 251 == 1:
        rec.sample({'server': srv, 'background': asyncm, 'path': path,
                    'body': case['_body'], 'events': [
                        (e['ev'], repr(e.get('data', e.get('reason')))[:30])
                        for e in got]})


def plan(tier, seed):
    n = 16
    per = 30000 if tier == 'thorough' else 1000
    return [{'seed': seed, 'shard': s, 'n': per} for s in range(n)]


def run_shard(spec):
    rec = Rec()
    cases = [{'seed': spec['seed'], 'i': spec['shard'] * 1000000 + k}
             for k in range(spec['n'])]
    for c in cases[::2]:
        c['aio'] = 'H'
    for c in cases[2::4]:
        c['aio'] = 'N'     # ... and behind the tornado adapter
    for c in cases[1::3]:
        c['tws'] = True    # threaded server: the real simple_websocket driver
    for c in cases[1::3]:
        c['mut'] = True
    scen.run_cases(rec, cases, run_case)
    return rec.result()


replay = scen.simple_replay(run_case)

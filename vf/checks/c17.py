"""C17 - session ids: format, uniqueness over 2^24 consecutive issues, >= 96
bits from the OS CSPRNG.

Monitor: an issue monitor wrapped (icontract post-condition) around the real
generate_id of real Server / AsyncServer instances, with the module's random
source (engineio.base_server.secrets) replaced by a recording source that can
also be adversarial (constant / short period).
"""
import base64
import re
import secrets as real_secrets

import icontract

from vf.rec import Rec

PROPERTY = 'C17'
LEVEL = 'exploration'
RULE = ('windows of consecutive generate_id() issues on real server objects: '
        'start counters {0, 0x7fffff, 0xffff00 (across the wrap), seeded '
        'random} x random sources {os CSPRNG, constant, period-2, period-3} x '
        '1..5 interleaved server instances (threaded and asyncio); windows '
        'in which other things happen to the server between issues (shutdown(), '
        'disconnect(), send() to unknown ids, handler registration, a complete '
        'concurrent issue nested inside the random call of another, issues '
        'through the real open request whose OPEN sid is checked); quick '
        'windows 2^17 (exact set uniqueness), thorough adds ONE FULL PERIOD '
        '2^24+1 issues per start counter with the constant source (bitset on '
        'the 24-bit tail; ids are an injective encoding of (random, tail) which '
        'is itself checked per issue). non-trivial = monitor evaluated; '
        'distinct = distinct (source, start counter bucket, instances, server '
        'kind) configurations x distinct 2^12-blocks of counter values seen')
ASSUMPTIONS = ['os.urandom / secrets is a CSPRNG (quality trusted)',
               '"embeds 96 bits" is decided as: the url-safe base64 decoding '
               'of the id contains, contiguously, the first 12 bytes the '
               'monitored source returned for that issue']
REQUIRED = ['issue_monitor', 'format', 'provenance', 'uniqueness_window',
            'counter_step', 'life_op_shutdown', 'open_sid_checked',
            'life_op_concurrent_issue']
SHARD_TIMEOUT = {'quick': 300, 'thorough': 3000}

FMT = re.compile(r'^[A-Za-z0-9_-]{20}$')


class ContractBroken(Exception):
    pass


class Source:
    """Recording random source standing in for the `secrets` module."""
    def __init__(self, mode):
        self.mode = mode
        self.calls = []      # (nbytes, returned) of the current issue
        self.n = 0

    reenter = None      # callable run once inside the next draw

    def token_bytes(self, nbytes=None):
        if nbytes is None:
            nbytes = 32
        if self.reenter is not None:
            # models another request thread running a complete issue while
            # this one is inside the (GIL-releasing) random call
            f, self.reenter = self.reenter, None
            f()
        self.n += 1
        if self.mode == 'os':
            b = real_secrets.token_bytes(nbytes)
        elif self.mode == 'const':
            b = b'\xa5' * nbytes
        elif self.mode == 'p2':
            b = (b'\x00' if self.n % 2 else b'\xff') * nbytes
        else:
            b = bytes([self.n % 3]) * nbytes
        self.calls.append((nbytes, b))
        return b

    def token_hex(self, nbytes=None):
        return self.token_bytes(nbytes).hex()

    def token_urlsafe(self, nbytes=None):
        return base64.urlsafe_b64encode(
            self.token_bytes(nbytes)).rstrip(b'=').decode('ascii')

    def randbits(self, k):
        return int.from_bytes(self.token_bytes((k + 7) // 8), 'big') >> (
            (-k) % 8)

    def __getattr__(self, name):
        return getattr(real_secrets, name)


class Monitor:
    def __init__(self, rec, src, case):
        self.rec = rec
        self.src = src
        self.case = case
        self.prev_tail = {}
        self.full = False

    def post(self, server, result):
        rec = self.rec
        rec.count('issue_monitor')
        self.last = result
        calls, self.src.calls = self.src.calls, []
        if not self.full or rec.counters['format'] < 4096:
            rec.count('format')
            if not isinstance(result, str) or not FMT.match(result):
                rec.viol('id-format', 'generate_id() returned %r' % (result,),
                         self.case)
                return
        rec.count('provenance')
        got = sum(n for n, b in calls)
        if got < 12:
            rec.viol('id-provenance-bytes', 'issue drew %d bytes from the '
                     'monitored CSPRNG (need >= 12): id %r' % (got, result),
                     self.case)
            return
        try:
            raw = base64.urlsafe_b64decode(result + '=' * (-len(result) % 4))
        except Exception:
            rec.viol('id-format', 'id %r is not url-safe base64' % result,
                     self.case)
            return
        rnd = b''.join(b for n, b in calls)[:12]
        pos = raw.find(rnd)
        if pos < 0:
            rec.viol('id-provenance-embed', 'id %r (decoded %s) does not '
                     'contain the 12 bytes %s returned by the random source'
                     % (result, raw.hex(), rnd.hex()), self.case)
            return
        rest = raw[:pos] + raw[pos + 12:]
        tail = int.from_bytes(rest[-3:], 'big')
        rec.count('counter_step')
        prev = self.prev_tail.get(id(server))
        if prev is not None and tail != (prev + 1) & 0xffffff:
            rec.viol('id-counter-step', 'counter part went %06x -> %06x '
                     '(must advance by 1 mod 2^24)' % (prev, tail), self.case)
        self.prev_tail[id(server)] = tail
        return tail


def make_servers(kinds):
    import engineio
    out = []
    for k in kinds:
        if k == 'T':
            out.append(engineio.Server(async_mode='threading',
                                       monitor_clients=False))
        else:
            out.append(engineio.AsyncServer(async_mode='asgi',
                                            monitor_clients=False))
    return out


def life_op(rec, server, r, loop):
    """Something else that happens in the life of a server between two
    issues: API calls that have nothing to do with ids, a shutdown, or an
    issue through the real open request (the id then comes back in the OPEN
    packet and is compared with what the monitored generate_id returned)."""
    import asyncio
    import json
    is_async = server.is_asyncio_based()
    op = r.choice(['shutdown', 'disconnect-all', 'send-unknown', 'on',
                   'open', 'open', 'open-rejected'])
    rec.count('life_op_' + op)

    def run(x):
        return loop.run_until_complete(x) if asyncio.iscoroutine(x) else x
    if op == 'shutdown':
        run(server.shutdown())
    elif op == 'disconnect-all':
        if not server.sockets:
            run(server.disconnect())
    elif op == 'send-unknown':
        run(server.send('nosuchsidAAAAAAAAAAA', 'x'))
    elif op == 'on':
        server.on('message', lambda sid, data: None)
    else:
        seen_by_handler = []
        if op == 'open-rejected':
            # the application turns the connection down: the id was issued
            # (the handler saw it) and counts like any other
            def reject(sid, environ):
                seen_by_handler.append(sid)
                return False
            server.on('connect', reject)
        env = {'REQUEST_METHOD': 'GET', 'PATH_INFO': '/engine.io/',
               'QUERY_STRING': 'transport=polling&EIO=4',
               'HTTP_HOST': 'srv.test', 'wsgi.url_scheme': 'http'}
        if is_async:
            # the threaded driver's response format, so that no web
            # framework is involved
            server._async = dict(
                server._async, translate_request=lambda e: e,
                make_response=lambda st, hd, payload, e: payload)
            body = run(server.handle_request(env))
        else:
            got = []
            out = server.handle_request(env, lambda st, h: got.append(st))
            body = b''.join(out)
        if isinstance(body, bytes):
            body = body.decode('utf-8')
        if op == 'open-rejected':
            server.handlers.pop('connect', None)
            rec.count('open_sid_checked')
            return seen_by_handler[0] if seen_by_handler else '?'
        sid = json.loads(body.split('\x1e')[0][1:])['sid']
        rec.count('open_sid_checked')
        return sid
    return None


def run_window(rec, mode, start, count, kinds, full=False, ops=0):
    import asyncio
    import random
    import engineio.base_server as bs
    case = {'source': mode, 'start': start, 'count': count, 'kinds': kinds,
            'full': full, 'ops': ops}
    opr = random.Random('c17-ops/%s/%s/%s' % (mode, start, ops))
    loop = asyncio.new_event_loop() if ops else None
    next_op = opr.randint(1, 200) if ops else -1
    rec.evaluations += count
    src = Source(mode)
    mon = Monitor(rec, src, case)
    mon.full = full
    orig_secrets, orig_gen = bs.secrets, bs.BaseServer.generate_id
    holder = {}

    def post(self, result):
        holder['tail'] = mon.post(self, result)
        return True
    bs.secrets = src
    if full:
        # plain wrapper (same monitor) - icontract costs ~15us per call, too
        # much for 3 x 2^24 issues
        def wrapped(self):
            r = orig_gen(self)
            post(self, r)
            return r
        bs.BaseServer.generate_id = wrapped
    else:
        bs.BaseServer.generate_id = icontract.ensure(
            post, error=ContractBroken)(orig_gen)
    try:
        servers = make_servers(kinds)
        for i, s in enumerate(servers):
            s.sequence_number = (start + 7919 * i) & 0xffffff
        if full:
            s = servers[0]
            bits = bytearray(1 << 21)
            first = None
            for i in range(count):
                sid = s.generate_id()
                t = holder.get('tail')
                if t is None:
                    break
                if first is None:
                    first = sid
                byte, bit = t >> 3, 1 << (t & 7)
                if bits[byte] & bit:
                    if i < (1 << 24):
                        rec.viol('id-repeat-in-window', 'issue %d repeats '
                                 'counter part %06x within 2^24 issues (const '
                                 'source => equal ids)' % (i, t), case)
                        break
                bits[byte] |= bit
            rec.count('uniqueness_window')
            rec.extra['full_periods'] = 1
            rec.key('full/%s/%x' % (mode, start))
            for blk in range(0, 4096, 64):
                rec.key('blk/%d' % blk)
        else:
            seen = [set() for _ in servers]
            n = 0
            while n < count:
                for i, s in enumerate(servers):
                    sid = None
                    if n == next_op and opr.random() < 0.3:
                        # a concurrent issue on the same server, nested in
                        # the random call of the next one
                        next_op = n + opr.randint(1, 400)
                        rec.count('life_op_concurrent_issue')
                        # (monitored by hand: icontract does not evaluate
                        # contracts of a re-entrant call)
                        src.reenter = lambda s=s: post(s, orig_gen(s))
                    elif n == next_op:
                        next_op = n + opr.randint(1, 400)
                        issued0 = rec.counters['issue_monitor']
                        sid = life_op(rec, s, opr, loop)
                        if sid is not None and (
                                rec.counters['issue_monitor'] != issued0 + 1
                                or sid != mon.last):
                            rec.viol('id-not-from-generate-id', 'an open '
                                     'request issued %r without exactly one '
                                     'monitored generate_id() call' % sid,
                                     case)
                    if sid is None:
                        sid = s.generate_id()
                    n += 1
                    if sid in seen[i]:
                        rec.viol('id-repeat-in-window', 'server %d issued %r '
                                 'twice within %d issues (source %s)' % (
                                     i, sid, len(seen[i]) + 1, mode), case)
                        n = count
                        break
                    seen[i].add(sid)
                    t = holder.get('tail')
                    if t is not None and n % 4096 == 0:
                        rec.key('blk/%d' % (t >> 12))
            rec.count('uniqueness_window')
            rec.key('win/%s/%s/%d/%s' % (
                mode, 'wrap' if start > 0xff0000 else
                'zero' if start == 0 else 'mid', len(kinds), ''.join(kinds)))
    finally:
        bs.secrets, bs.BaseServer.generate_id = orig_secrets, orig_gen
        if loop is not None:
            loop.close()
    return case


def plan(tier, seed):
    import random
    r = random.Random('c17/%d' % seed)
    starts = [0, 0x7fffff, 0xffff00, r.randrange(1 << 24)]
    shards = []
    W = 1 << 17
    for mode in ('os', 'const', 'p2', 'p3'):
        for st in starts:
            kinds = ''.join(r.choice('TA') for _ in range(r.randint(1, 5)))
            shards.append({'mode': mode, 'start': st, 'count': W,
                           'kinds': kinds})
    # windows in which other things happen to the server between issues
    for k, mode in enumerate(('const', 'p2', 'os', 'p3')):
        shards.append({'mode': mode, 'start': [0, 0xffff00, 5, 0x7fffff][k],
                       'count': 1 << 14, 'kinds': ['T', 'A', 'TA', 'AT'][k],
                       'ops': seed * 10 + k + 1})
    if tier == 'thorough':
        for k in range(8):
            shards.append({'mode': ('const', 'p2')[k % 2],
                           'start': r.randrange(1 << 24), 'count': 1 << 16,
                           'kinds': ('T', 'A', 'TA')[k % 3],
                           'ops': seed * 100 + k})
        for st in (0, 0xfffff0, r.randrange(1 << 24)):
            shards.append({'mode': 'const', 'start': st,
                           'count': (1 << 24) + 1, 'kinds': 'T', 'full': True})
        for mode in ('os', 'p2'):
            shards.append({'mode': mode, 'start': r.randrange(1 << 24),
                           'count': 1 << 21, 'kinds': 'TA'})
    return shards


def run_shard(spec):
    rec = Rec()
    case = run_window(rec, spec['mode'], spec['start'], spec['count'],
                      spec['kinds'], spec.get('full', False),
                      spec.get('ops', 0))
    rec.sample(case)
    if spec.get('full'):
        rec.extra['exhaustive'] = True
    return rec.result()


def replay(case):
    rec = Rec()
    run_window(rec, case['source'], case['start'], min(case['count'], 1 << 20),
               case['kinds'], False, case.get('ops', 0))
    return rec.violations

"""C10 - this package's clients and servers interoperate without loss or
disagreement.

Monitor: a two-sided history checker over both applications' handler logs
(client app and server app), with unique message ids in both directions, for
the real clients connected to the real servers: Client<->Server under one
thread scheduler, AsyncClient<->AsyncServer through the real ASGI adapter on
one virtual loop, and the two cross pairs through the bridge (an asyncio loop
running as one task of the thread scheduler, one shared virtual clock).
"""
from vf import cli, gen, scen
from vf.rec import Rec

PROPERTY = 'C10'
LEVEL = 'exploration'
RULE = ('seeded conversations for each of the 2x2 implementation pairs x '
        'client transports {[polling],[websocket],[polling,websocket]} x '
        'bursts of 1..40 sends in either direction (text / JSON / binary incl. '
        'empty and 64 kB) x idle periods of >= 30 heartbeat cycles x '
        'disconnect initiated by either side at a seeded step x heartbeat '
        'settings {(2,1),(1,1),(0.5,0.25),(25,20),(1/8,1),(1/16,2)} x network '
        'latency per hop {0, <= ping_timeout/64, <= ping_timeout/32} x server '
        'sends issued by an application task right after the connect event '
        '(racing with the probe / UPGRADE) x (threaded parties) '
        'seeded random cooperative schedules; pairs TT, AA, TA, AT plus AH / '
        'TH = the asyncio server behind the real aiohttp adapter and web '
        'server (engine simH). distinct = distinct (pair, '
        'transport, heartbeat, step-shape, ender) signatures')
ASSUMPTIONS = ['order is required under the FIFO schedule for the threaded '
               'client\'s message handlers (one task per message) and for '
               'background server handlers only as a multiset',
               'text payloads are not JSON look-alikes (that rule is C01\'s)',
               'cross pairs: the asyncio loop is one task of the thread '
               'scheduler and is interleaved with the threaded party\'s tasks '
               'by the same (fifo or seeded random) policy']
REQUIRED = ['conversations', 'conversations_with_latency',
            'early_server_sends', 'up_exactly_once', 'down_exactly_once',
            'idle_survived', 'both_sides_one_disconnect']
SHARD_TIMEOUT = {'quick': 600, 'thorough': 3400}

HB = [(2, 1), (1, 1), (0.5, 0.25), (25, 20), (0.125, 1), (0.0625, 2)]


def mk(rng, tag, k):
    i = '%s%d' % (tag, k)
    q = rng.random()
    if q < 0.4:
        return i, i + '|' + gen.rtext(rng, 0, 8, 'abc xyz-'), 'text'
    if q < 0.65:
        return i, {'id': i, 'v': [k, None, 'x', 1.5]}, 'json'
    if q < 0.9:
        return i, i.encode() + b'\x00' + gen.rbytes(rng, 0, 20), 'binary'
    if q < 0.95:
        return i, i.encode() + b'\x00' + bytes(65536), 'big'
    return i, b'', 'empty'


def id_of(d):
    if isinstance(d, (bytes, bytearray)):
        if len(d) == 0:
            return '<empty>'
        d = bytes(d).split(b'\x00')[0].decode('ascii', 'replace')
    if isinstance(d, dict):
        d = d.get('id')
    return d.split('|')[0] if isinstance(d, str) else None


MAXSTEPS = [0, 0]


def run_conv(rec, case):
    rng = gen.mkrng('c10', case['seed'], case['i'])
    pair = case['pair']
    transport = rng.choice(['polling', 'websocket', 'upgrade'])
    pi, pt = rng.choice(HB)
    async_handlers = rng.random() < 0.3
    sched_seed = rng.randrange(1 << 30) if (pair not in (
        'AA', 'AH', 'RH', 'AN', 'RN') and
                                            rng.random() < 0.5) else 0
    rec.evaluations += 1
    # the server's answer to the upgrade probe gets lost: the threaded
    # client gives the attempt up after its request time-out and the
    # conversation goes on over polling, as if no upgrade had been tried
    lost_probe = pair in ('TT', 'TA', 'AA', 'AT', 'AH', 'AN') and \
        transport == 'upgrade' and \
        pi >= 1 and pt >= 1 and case['i'] % 3 == 0
    w = cli.PAIRS[pair]({'ping_interval': pi, 'ping_timeout': pt,
                         'async_handlers': async_handlers},
                        policy='random' if sched_seed else 'fifo',
                        seed=sched_seed,
                        request_timeout=1.0 if lost_probe else 5)
    if lost_probe:
        w.peer.drop_probe_answers = 1
        rec.count('upgrade_probe_answers_lost')
    steps = []
    # network latency: every request, response and client frame takes a
    # seeded share of at most ping_timeout/32: a PONG queued behind the
    # largest backlog the workload builds (~100 packets = 7 POSTs of two hops)
    # still arrives well inside ping_timeout; with the short-interval settings
    # the first PINGs then fall INSIDE the connect / upgrade sequence
    lat_max = min(0.25, rng.choice([0, 0, pt / 64.0, pt / 32.0]))
    lrng = gen.mkrng('c10lat', case['seed'], case['i'])
    if lat_max:
        w.peer.lat = lambda: lrng.choice([0, lat_max / 2.0, lat_max])
        rec.count('conversations_with_latency')
    # the server application may send right after the connect event, from a
    # task of its own (not from inside the handler): these sends race with
    # the rest of the client's connect sequence (probe, UPGRADE)
    early = rng.choice([0, 0, 1, 3])
    early_msgs = []
    if early:
        def on_event(ev, sid_, data_):
            if ev == 'connect' and not early_msgs:
                calls = []
                for k in range(early):
                    i, data, kd = mk(rng, 'E', k)
                    early_msgs.append((i, data))
                    calls.append(('send', (sid_, data)))
                w.sim.app_seq(calls)
        w.sim.on_event = on_event
        rec.count('early_server_sends')
    desc = ('pair=%s transport=%s pi=%s pt=%s background_handlers=%s sched=%d '
            'latency<=%s early_sends=%d') % (
        pair, transport, pi, pt, async_handlers, sched_seed, lat_max, early)

    def V(key, msg):
        rec.viol(key, msg + ' | ' + desc + ' steps=%r' % (steps[-16:],), case)
    # a legitimate conversation takes < 250 000 scheduling steps (the evidence
    # records the maximum seen); far more than that in bounded virtual time
    # is a livelock (e.g. polls answered at once, again and again)
    # ... and at most a few thousand at one and the same virtual instant
    # (maximum seen: see the evidence)
    if getattr(w, 'sched', None) is not None:
        w.sched.max_steps = 1500000
        w.sched.instant_budget = 150000
    if getattr(w, 'loop', None) is not None:
        w.loop.max_iterations = 1500000
        w.loop.instant_budget = 150000
    try:
        c, sim = w.cli, w.sim
        tr = {'polling': ['polling'], 'websocket': ['websocket'],
              'upgrade': None}[transport]
        r = c.call('connect', 'http://srv.test/', transports=tr)
        w.run_until(lambda: r['done'], 30)
        rec.count('conversations')
        if not r['done'] or r['exc'] is not None:
            V('connect-failed', 'connect: done=%r exc=%r' % (r['done'],
                                                             r['exc']))
            return
        sid = c.c.sid
        w.quiesce()
        if lat_max:
            # frames / requests still in flight (e.g. the UPGRADE frame)
            w.advance(4 * lat_max)
            w.quiesce()
        want_tr = 'polling' if (transport == 'polling' or lost_probe) \
            else 'websocket'
        if c.c.transport() != want_tr or sim.transport_of(sid) != want_tr:
            V('transport-disagreement', 'client says %r, server says %r, '
              'expected %r' % (c.c.transport(), sim.transport_of(sid),
                               want_tr))
        up, down = [], list(early_msgs)
        nu = nd = 0
        ender = rng.choice(['client', 'server', 'client', 'server', 'none'])
        nsteps = rng.randint(3, 12)
        idle_done = False
        for st in range(nsteps):
            k = rng.random()
            if k < 0.38:
                n = rng.choice([1, 2, 5, 16, 17, 40])
                batch = []
                for _ in range(n):
                    nu += 1
                    i, data, kd = mk(rng, 'U', nu)
                    up.append((i, data))
                    batch.append(data)
                # one application task sends them in sequence; wait for it so
                # that the next batch is sent after this one
                rs = c.call_seq('send', batch)
                w.run_until(lambda: rs['done'], 60)
                steps.append('up%d' % n)
            elif k < 0.76:
                n = rng.choice([1, 2, 5, 16, 17, 40])
                calls = []
                for _ in range(n):
                    nd += 1
                    i, data, kd = mk(rng, 'D', nd)
                    down.append((i, data))
                    calls.append(('send', (sid, data)))
                ts = sim.app_seq(calls)
                w.run_until(lambda: ts.done, 60)
                steps.append('down%d' % n)
            elif k < 0.80:
                # ONE mutable object sent twice, changed in place in between
                # (the second message is what the object is at that moment)
                import copy
                rec.count('same_object_sent_twice')
                if rng.random() < 0.5:
                    nd += 1
                    obj = {'id': 'D%d' % nd, 'v': [nd]}
                    down.append(('D%d' % nd, copy.deepcopy(obj)))
                    t1 = sim.app_call('send', sid, obj)
                    first = 'D%d' % nd
                    # (the object is changed only after the first message has
                    # arrived: until a packet is written the package holds the
                    # caller's object, as documented for Packet.encode)
                    w.run_until(lambda: any(
                        e['ev'] == 'message' and id_of(e['data']) == first
                        for e in c.events), 60)
                    nd += 1
                    obj['id'] = 'D%d' % nd
                    obj['v'].append(nd)
                    down.append(('D%d' % nd, copy.deepcopy(obj)))
                    t2 = sim.app_call('send', sid, obj)
                    w.run_until(lambda: t2.done, 60)
                else:
                    nu += 1
                    obj = {'id': 'U%d' % nu, 'v': [nu]}
                    up.append(('U%d' % nu, copy.deepcopy(obj)))
                    r1 = c.call('send', obj)
                    first = 'U%d' % nu
                    w.run_until(lambda: any(
                        e['ev'] == 'message' and id_of(e['data']) == first
                        for e in sim.events), 60)
                    nu += 1
                    obj['id'] = 'U%d' % nu
                    obj['v'].append(nu)
                    up.append(('U%d' % nu, copy.deepcopy(obj)))
                    r2 = c.call('send', obj)
                    w.run_until(lambda: r2['done'], 60)
                steps.append('mut')
            elif k < 0.88 and not idle_done:
                idle_done = True
                w.quiesce()
                n0 = (len(c.events), len(sim.events))
                w.advance(31 * (pi + pt))
                rec.count('idle_survived')
                steps.append('idle')
                if any(e['ev'] == 'disconnect' for e in c.events) or \
                        any(e['ev'] == 'disconnect' for e in sim.events):
                    V('disconnected-while-idle', 'an idle connection (31 '
                      'heartbeat cycles) was dropped: client %r server %r' % (
                          [(e['reason'], e['t']) for e in c.events
                           if e['ev'] == 'disconnect'],
                          [(e['reason'], e['t']) for e in sim.events
                           if e['ev'] == 'disconnect']))
                    return
            else:
                w.advance(rng.choice([0.1, pi / 2.0, pi]))
                steps.append('adv')
            if rng.random() < 0.5:
                w.quiesce()
        w.quiesce()
        w.advance(pi / 4.0)
        w.quiesce()
        if lat_max:
            # let everything in flight arrive: a poll cycle is a few hops,
            # a burst of 40 needs three POSTs of two hops each
            for _ in range(6):
                w.advance(4 * lat_max)
                w.quiesce()
        # ---- both directions: exactly once, in order, equal
        sgot = [e['data'] for e in sim.events if e['ev'] == 'message']
        cgot = [e['data'] for e in c.events if e['ev'] == 'message']
        for name, got, want, ordered in (
                ('up', sgot, up, not async_handlers),
                ('down', cgot, down, pair[0] == 'A' or not sched_seed)):
            rec.count(name + '_exactly_once', max(1, len(want)))
            gi = [id_of(g) for g in got]
            wi = [id_of(d) for i, d in want]
            if sorted(gi) != sorted(wi):
                kindv = 'lost' if len(gi) < len(wi) else 'duplicated'
                V('%s-%s' % (name, kindv), '%s: received %d of %d: missing %r '
                  'extra %r' % (name, len(gi), len(wi),
                                [x for x in wi if x not in gi][:8],
                                [x for x in gi if x not in wi][:8]))
                return
            if ordered and gi != wi:
                V('%s-reordered' % name, '%s: received order %r, sent %r' % (
                    name, gi[:30], wi[:30]))
                return
            bywant = {}
            for i, d in want:
                bywant.setdefault(id_of(d), []).append(d)
            for g in got:
                lst = bywant.get(id_of(g)) or [None]
                if not any(gen.same(g, gen.expected_roundtrip(d))
                           for d in lst if d is not None):
                    V('%s-payload-changed' % name, 'message %s arrived as %s'
                      % (id_of(g), repr(g)[:80]))
                    return
        # ---- ending
        if ender == 'client':
            d = c.call('disconnect')
            steps.append('client-disconnect')
        elif ender == 'server':
            sim.app_call('disconnect', sid)
            steps.append('server-disconnect')
        if ender != 'none':
            w.quiesce()
            w.run_until(lambda: c.c.state == 'disconnected', 60)
            w.advance(2 * (pi + 3 * pt) + 8)
            rec.count('both_sides_one_disconnect')
            cd = [e for e in c.events if e['ev'] == 'disconnect']
            sd = [e for e in sim.events if e['ev'] == 'disconnect']
            if len(cd) != 1 or len(sd) != 1:
                V('disconnect-count-%s-initiated' % ender,
                  'after the %s disconnected: client saw %r, server saw %r' %
                  (ender, [e['reason'] for e in cd],
                   [e['reason'] for e in sd]))
        rec.key('%s/%s/%s/%s/%s' % (pair, transport, (pi, pt), ''.join(
            s[0] for s in steps), ender))
        if rec.evaluations % 61 == 1:
            rec.sample({'conversation': desc, 'steps': steps,
                        'up': len(up), 'down': len(down), 'ender': ender})
    except Exception as e:
        if 'budget exhausted' not in str(e):
            raise
        V('runaway-activity', 'scheduling budget exhausted at virtual '
          't=%.3f: the two parties generate unbounded activity in bounded '
          'time (%s)' % (w.now, e))
    finally:
        sch = getattr(w, 'sched', None)
        n = sch.steps if sch is not None else w.loop.iterations
        if n > MAXSTEPS[0]:
            MAXSTEPS[0] = n
            rec.extra['max_scheduling_steps'] = n
        m = max(getattr(sch, 'max_instant', 0) if sch is not None else 0,
                getattr(getattr(w, 'loop', None), 'max_instant', 0))
        if m > MAXSTEPS[1]:
            MAXSTEPS[1] = m
            rec.extra['max_steps_at_one_instant'] = m
        w.teardown()


def plan(tier, seed):
    per = 8000 if tier == 'thorough' else 220
    shards = []
    for pair in ('TT', 'AA', 'TA', 'AT', 'AH', 'TH', 'RH', 'AN', 'TN', 'RN'):
        for s in range(4 if len(pair) == 2 and pair[1] in 'TA' else 2):
            shards.append({'seed': seed, 'pair': pair, 'shard': s, 'n': per})
    return shards


def run_shard(spec):
    rec = Rec()
    cases = [{'seed': spec['seed'], 'pair': spec['pair'],
              'i': spec['shard'] * 1000000 + k} for k in range(spec['n'])]
    scen.run_cases(rec, cases, run_conv)
    rec.extra['pairs_covered'] = [spec['pair']]
    return rec.result()


def finalize(cov, merged, tier):
    cov['pairs_covered'] = sorted(set(cov.get('pairs_covered', [])))


replay = scen.simple_replay(run_conv)

"""C08 - client connection lifecycle: one connect, one disconnect, clean
reusable state.

Monitor: an event automaton over the client application's handler log plus
probes of the public state (state, sid, transport(), wait() completion in
virtual time, background tasks still alive) after every scenario step, and the
scripted server's request log (no traffic from an idle client).
"""
import itertools

from vf import cli, gen, scen
from vf.rec import Rec

PROPERTY = 'C08'
LEVEL = 'fault_enumeration'
RULE = ('fault enumeration per connect/disconnect cycle: server behaviour at '
        'connect {refuse, 401+JSON, 500 no JSON, undecodable, empty body, '
        'non-OPEN first packet, valid OPEN, ws refused, ws garbage, ws closed} '
        'x transports {[polling], [websocket], [polling,websocket] with probe '
        '{ok, wrong, silent, closed, ws refused}} x how the connection ends '
        '{server CLOSE, server silence, dropped connection, failed POST (with '
        'the polls starving or still answered), '
        'client disconnect() from the main task / a message handler / the '
        'connect handler / the disconnect handler, disconnect(abort=True), '
        'disconnect() after the write loop died on a failed send} x '
        '1..3 cycles on one client object x client {Client, AsyncClient}; '
        'threaded client under fifo and seeded random cooperative schedules. '
        'distinct = distinct (client, open behaviour, transports, probe, '
        'ender, cycle index) cells; third client world R = AsyncClient over a '
        'REAL aiohttp.ClientSession (in-memory pipes to an HTTP/1.1 + RFC '
        '6455 front-end of the scripted server); probe answers include '
        'undecodable and empty frames')
ASSUMPTIONS = ['transport timeouts are honoured by the fake transports in '
               'virtual time (request_timeout=5 s, advertised pi=2 s pt=1 s)',
               'a client is given 60 virtual seconds to settle after the '
               'connection was ended; every bound in the statement is far '
               'below that']
REQUIRED = ['connect_outcome', 'one_connect_event', 'one_disconnect_event',
            'state_reset', 'wait_returns', 'reusable', 'idle_noops',
            'preempt_races', 'alive_before_end']
SHARD_TIMEOUT = {'quick': 500, 'thorough': 3400}

OPENS = ['ok', 'refuse', 'status401', 'status500', 'garbage', 'empty',
         'nonopen', 'ws-status403']
TRANSPORTS = ['polling', 'websocket', 'upgrade']
PROBES = ['ok', 'wrong', 'silent', 'close', 'refuse', 'upgrade-write-fails',
          'status403', 'garbage', 'empty']
ENDERS = ['server-close', 'silence', 'drop', 'post-fail', 'client-main',
          'client-in-message', 'client-in-connect', 'client-in-disconnect',
          'client-abort', 'write-dead-then-client', 'client-during-post',
          'garbage', 'post-fail-polls-ok', 'write-dead-burst-then-drop',
          'post-response-lost']
PI, PT = 2, 1


def script_for(openb, transport, probe):
    sc = {'pi': PI, 'pt': PT}
    if transport == 'polling':
        sc['upgrades'] = ['websocket']
    if openb == 'status401':
        sc['open'] = ('status', 401, '{"reason":"no"}')
    elif openb == 'status500':
        sc['open'] = ('status', 500, '<html>oops</html>')
    elif openb in ('refuse', 'garbage', 'empty', 'nonopen'):
        sc['open'] = openb
    if openb == 'ws-status403':
        # the WebSocket handshake is answered with an HTTP 403 (on polling
        # the open request is answered 403 as well)
        sc['ws'] = 'status403'
        sc['open'] = ('status', 403, 'forbidden')
    if transport == 'websocket':
        if openb == 'refuse':
            sc['ws'] = 'refuse'
        elif openb in ('garbage', 'nonopen'):
            sc['ws_open'] = openb
        elif openb in ('status401', 'status500', 'empty'):
            sc['ws_open'] = 'close'
    if transport == 'upgrade':
        if probe == 'refuse':
            sc['ws'] = 'refuse'
        elif probe == 'status403':
            sc['ws'] = 'status403'
        else:
            sc['probe'] = probe
    return sc


def one_cycle(rec, w, V, case, cyc, openb, transport, probe, ender, rng):
    c = w.cli
    srv = w.srv
    srv.script = script_for(openb, transport, probe)
    srv.dropped = False
    srv.silent = False
    srv.nposts = 0
    srv.pollq = srv.mk()        # nothing left over from the previous cycle
    srv.ws = None
    srv.session_closed = False
    posts0 = len(srv.posts)
    frames0 = len(srv.frames)
    ev0 = len(c.events)
    req0 = len(srv.requests)
    tr = {'polling': ['polling'], 'websocket': ['websocket'],
          'upgrade': None}[transport]
    if ender == 'client-in-connect':
        if w.kind == 'T':
            c.on_connect = lambda: c.c.disconnect()
        else:
            async def oc():
                await c.c.disconnect()
            c.on_connect = oc
    else:
        c.on_connect = None
    if ender == 'client-in-message':
        if w.kind == 'T':
            c.on_message = lambda d: c.c.disconnect()
        else:
            async def om(d):
                await c.c.disconnect()
            c.on_message = om
    else:
        c.on_message = None
    if ender == 'client-in-disconnect':
        if w.kind == 'T':
            c.on_disconnect = lambda r: c.c.disconnect()
        else:
            async def od(r):
                await c.c.disconnect()
            c.on_disconnect = od
    else:
        c.on_disconnect = None
    r = c.call('connect', 'http://srv.test/', transports=tr)
    w.run_until(lambda: r['done'], 30)
    rec.count('connect_outcome')
    should_fail = openb != 'ok'
    if not r['done']:
        V('connect-hangs', 'connect() did not return within 30 virtual s')
        return False
    if should_fail:
        import engineio
        if r['exc'] is None:
            V('connect-accepts-bad-server', 'connect() returned normally '
              'against a server that answered %s' % openb)
            return False
        if not isinstance(r['exc'], engineio.exceptions.ConnectionError):
            V('connect-raises-%s-on-%s' % (type(r['exc']).__name__, openb),
              'connect() raised %r instead of ConnectionError' % (r['exc'],))
        w.advance(10)
        if c.c.state != 'disconnected':
            V('failed-connect-leaves-state', 'after a failed connect() the '
              'state is %r' % c.c.state)
            return False
        if c.events[ev0:]:
            V('events-after-failed-connect', 'events %r' % (
                [e['ev'] for e in c.events[ev0:]],))
        return True
    if r['exc'] is not None:
        V('connect-fails-on-good-server', 'connect() raised %r' % (r['exc'],))
        return False
    rec.count('one_connect_event')
    conns = [e for e in c.events[ev0:] if e['ev'] == 'connect']
    if len(conns) != 1:
        V('connect-event-count', '%d connect events' % len(conns))
        return False
    want_tr = 'websocket' if transport == 'websocket' or (
        transport == 'upgrade' and probe == 'ok') else 'polling'
    if ender != 'client-in-connect':
        if conns[0]['sid'] != srv.sid or c.c.sid != srv.sid:
            V('sid-not-adopted', 'client sid %r, server announced %r' % (
                c.c.sid, srv.sid))
        if c.c.transport() != want_tr:
            V('wrong-transport', 'transport() = %r, expected %r (probe %s)' % (
                c.c.transport(), want_tr, probe))
        if abs(c.c.ping_interval - PI) > 1e-9 or \
                abs(c.c.ping_timeout - PT) > 1e-9:
            V('timing-not-adopted', 'ping_interval=%r ping_timeout=%r' % (
                c.c.ping_interval, c.c.ping_timeout))
    # some traffic
    w.quiesce()
    if ender != 'client-in-connect':
        c.call('send', 'up-%d' % cyc)
        if want_tr == 'polling':
            srv.push('4down-%d' % cyc)
        elif srv.ws is not None:
            srv.ws.push('4down-%d' % cyc)
        w.quiesce()
        # the connection is up and nobody has ended it yet
        if ender != 'client-in-message':
            rec.count('alive_before_end')
            early = [e for e in c.events[ev0:] if e['ev'] == 'disconnect']
            sent = [p['body'] for p in srv.posts[posts0:]] + \
                [f['frame'] for f in srv.frames[frames0:]]
            if early or c.c.state != 'connected':
                V('spurious-disconnect', 'nobody ended the connection yet but '
                  'state=%r, disconnect events %r; the server received %r' % (
                      c.c.state, [e['reason'] for e in early], sent))
                return False
            if not any(('4up-%d' % cyc) in str(x).split(gen.SEP)
                       for x in sent):
                V('established-connection-does-not-send', 'send() on the '
                  'established connection did not reach the server; it '
                  'received %r' % (sent,))
                return False
    # end it
    want_reason = None
    if ender == 'server-close':
        if want_tr == 'polling':
            srv.push('1')
        else:
            srv.ws.push('1')
        want_reason = 'server disconnect'
    elif ender == 'silence':
        srv.silent = True
        want_reason = 'transport error'
    elif ender == 'drop':
        srv.dropped = True
        if want_tr == 'polling':
            srv.pollq.put(None)
        else:
            srv.ws.server_close()
        want_reason = 'transport error'
    elif ender == 'post-fail':
        if want_tr == 'polling':
            srv.script['post'] = 'fail-status'
            c.call('send', 'doomed')
        else:
            srv.ws.server_close()
        want_reason = 'transport error'
    elif ender == 'post-response-lost':
        # the server receives and processes a POST, but the connection goes
        # away before its answer: the client must not transmit it again
        if want_tr == 'polling':
            srv.script['post'] = 'lost-response'
            c.call_seq('send', ['once-1', 'once-2'])
            w.quiesce()
            w.advance(0.5)
            srv.script['post'] = 'ok'
            w.advance(1)
            seen = [x for po in srv.posts[posts0:]
                    for x in po['body'].split(gen.SEP)
                    if x.startswith('4once-')]
            if len(seen) != len(set(seen)):
                V('transmitted-twice', 'a POST whose answer was lost was '
                  'sent again: the server received %r' % (seen,))
                return False
            srv.script['post'] = 'refuse'
            srv.dropped = True
            srv.pollq.put(None)
        else:
            srv.ws.server_close()
        want_reason = 'transport error'
    elif ender == 'post-fail-polls-ok':
        # a POST is refused with an HTTP status while the long-polls keep
        # being answered (the server PINGs on): the connection is still lost
        if want_tr == 'polling':
            srv.script['post'] = 'fail-status'
            c.call('send', 'doomed')
            w.quiesce()
            for _ in range(40):
                if any(e['ev'] == 'disconnect' for e in c.events[ev0:]):
                    break
                srv.push('2')
                w.advance(0.5)
            else:
                V('connection-survives-failed-post', 'a POST was answered '
                  '400 twenty virtual seconds ago; the polls are still '
                  'answered and the client is still %r with no disconnect '
                  'event' % c.c.state)
                return False
        else:
            srv.ws.server_close()
        want_reason = 'transport error'
    elif ender == 'write-dead-burst-then-drop':
        # the write loop dies on a failed send while the read loop keeps
        # going; the application (state still 'connected') goes on sending a
        # burst; then the read side fails too
        if want_tr == 'polling':
            srv.script['post'] = 'refuse'
        else:
            srv.ws.send_fails = True
        c.call('send', 'doomed')
        w.quiesce()
        c.call_seq('send', ['burst-%d' % k for k in range(24)])
        w.quiesce()
        srv.dropped = True
        if want_tr == 'polling':
            srv.pollq.put(None)
        else:
            srv.ws.server_close()
        want_reason = 'transport error'
    elif ender == 'write-dead-then-client':
        # the write loop dies (send fails at connection level) while the read
        # loop keeps going and the state is still 'connected'; then the
        # application disconnects
        if want_tr == 'polling':
            srv.script['post'] = 'refuse'
        else:
            srv.ws.send_fails = True
        c.call('send', 'doomed')
        w.quiesce()
        d = c.call('disconnect')
        want_reason = 'client disconnect'
    elif ender == 'garbage':
        # the server sends something that is not a payload / packet
        if want_tr == 'polling':
            srv.pollq.put(rng.choice(['\x1e\x1ex', 'x', '4a\x1e']))
        else:
            srv.ws.push(rng.choice(['', 'x']))
        want_reason = 'transport error'
    elif ender == 'client-during-post':
        # the application disconnects while a POST (or frame) of its own is
        # still in flight
        srv.script['post_delay'] = 0.5
        c.call('send', 'slow')
        w.quiesce()
        d = c.call('disconnect')
        want_reason = 'client disconnect'
    elif ender in ('client-main', 'client-abort'):
        d = c.call('disconnect', abort=(ender == 'client-abort'))
        want_reason = 'client disconnect'
    elif ender == 'client-in-message':
        want_reason = 'client disconnect'      # triggered by down-<n> above
    elif ender == 'client-in-connect':
        want_reason = 'client disconnect'
    elif ender == 'client-in-disconnect':
        d = c.call('disconnect')
        want_reason = 'client disconnect'
    w.quiesce()
    if ender in ('client-main', 'client-abort') and d is not None and \
            d.get('done') and want_tr == 'websocket' and srv.ws is not None:
        # the application's disconnect() has returned: a frame the server
        # sends at that very moment finds nobody listening any more
        rec.count('frames_right_after_client_disconnect')
        n_ev = len(c.events)
        srv.ws.push('4late-at-once')
        w.quiesce()
        if any(e['ev'] == 'message' for e in c.events[n_ev:]):
            V('event-after-disconnect', 'a frame arriving right after '
              'disconnect(%s) returned was dispatched: %r' % (
                  'abort=True' if ender == 'client-abort' else '',
                  [(e['ev'], e.get('data')) for e in c.events[n_ev:]]))
    w.run_until(lambda: c.c.state == 'disconnected' and
                not w.live_client_tasks(), 60)
    w.advance(12)
    rec.count('one_disconnect_event')
    dis = [e for e in c.events[ev0:] if e['ev'] == 'disconnect']
    key_sfx = '%s-%s' % (ender, want_tr)
    if len(dis) > 1 and disconnect_race(w, c, dis, case):
        # known finding K3b: the read-loop epilogue and an application
        # disconnect() both found state == 'connected'
        V('client-disconnect-race', 'two parties ended the connection at '
          'once under a schedule with yields: disconnect events %r, '
          'disconnect() calls %r' % (
              [(d_['reason'], d_['state'], d_['clk']) for d_ in dis],
              c.disc_calls[-3:]))
    elif len(dis) != 1:
        V('disconnect-event-count-' + ender, '%d disconnect events (%r) after '
          'the connection was ended by %s; state=%r' % (
              len(dis), [d_['reason'] for d_ in dis], ender, c.c.state))
    elif dis[0]['reason'] != want_reason and dis[0]['reason'] != '?legacy':
        V('disconnect-reason-' + ender, 'reason %r, expected %r' % (
            dis[0]['reason'], want_reason))
    rec.count('state_reset')
    if c.c.state != 'disconnected' or c.c.sid is not None:
        V('state-not-reset-' + ender, 'after the end: state=%r sid=%r' % (
            c.c.state, c.c.sid))
        return False
    # nothing fires afterwards
    n1 = len(c.events)
    if want_tr == 'polling':
        srv.push('4late')
    elif srv.ws is not None:
        srv.ws.push('4late')
    w.advance(5)
    if len(c.events) != n1:
        V('event-after-disconnect', 'events after the disconnect event: %r' %
          ([(e['ev'], e.get('data')) for e in c.events[n1:]],))
    rec.count('wait_returns')
    wt = c.call('wait')
    w.run_until(lambda: wt['done'], 30)
    live = w.live_client_tasks()
    if not wt['done'] or [x for x in live if 'wait' not in x]:
        V('background-task-alive-' + ender, 'wait() returned=%r, client '
          'tasks still alive: %r' % (wt['done'], live))
        return False
    return True


def disconnect_race(w, c, dis, case):
    """Mechanism of known finding K3b, decided on recorded clocks: threaded
    client under a schedule with yields; one disconnect event was fired by the
    read-loop epilogue (handler saw state 'connected', reason 'transport
    error') and an application disconnect() call that had itself found the
    state 'connected' overlaps it - either it was inside its call when the
    epilogue fired, or it entered after the epilogue fired and before the
    state was reset."""
    if w.kind != 'T' or not case.get('sched'):
        return False
    epi = [d for d in dis if d['state'] == 'connected' and
           d['reason'] in ('transport error', '?legacy')]
    calls = [k for k in getattr(c, 'disc_calls', [])
             if k['state'] == 'connected']
    for e in epi:
        for k in calls:
            if k['enter'] < e['clk'] < (k['exit'] or 1e18):
                return True
            if k['enter'] > e['clk'] and any(
                    d['clk'] > k['enter'] and d['state'] == 'disconnecting'
                    for d in dis):
                return True
    return False


def idle_noops(rec, w, V):
    rec.count('idle_noops')
    n0 = len(w.srv.requests) + len(w.cli.wire)
    e0 = len(w.cli.events)
    a = w.cli.call('send', 'nobody')
    b = w.cli.call('disconnect')
    w.quiesce()
    w.advance(3)
    for r in (a, b):
        if not r['done'] or r['exc'] is not None:
            V('idle-call-raises', '%s() on an idle client: done=%r exc=%r' % (
                r['name'], r['done'], r['exc']))
    if len(w.srv.requests) + len(w.cli.wire) != n0 or \
            len(w.cli.events) != e0 or w.cli.c.state != 'disconnected':
        V('idle-call-has-effect', 'send()/disconnect() on an idle client '
          'caused traffic or events; state=%r' % w.cli.c.state)


def run_case(rec, case):
    kind = case['kind']
    rec.evaluations += 1
    rng = gen.mkrng('c08', case['sched'], str(case['cycles']))
    # handler forms: plain functions on the asyncio client when no cycle
    # needs to call the client from inside a handler; the legacy disconnect
    # handler without a reason argument (its reason is then not observable)
    hooks = any(c[3].startswith('client-in-') for c in case['cycles'])
    plain = kind in 'AR' and not hooks and rng.random() < 0.4
    legacy = rng.random() < 0.25
    case['_handlers'] = {'plain': plain, 'legacy_disconnect': legacy}
    if plain or legacy:
        rec.count('odd_handler_forms')
    w = cli.make_world(kind, policy='random' if case['sched'] else 'fifo',
                       seed=case['sched'], yield_prob=0.3 if case['sched']
                       else 0.0, request_timeout=5, plain_handlers=plain,
                       legacy_disconnect=legacy)

    if kind == 'A':
        # what a failing WebSocket write raises differs from one network
        # fault to the other (fake aiohttp session only)
        w.srv.write_error_kind = ['disconnected', 'reset', 'pipe', 'timeout',
                                  'unreachable'][
            sum(map(ord, repr(case['cycles']))) % 5]
        case['_handlers']['write_error'] = w.srv.write_error_kind
    if case.get('boomdis'):
        # the application's disconnect handler raises (after it ran)
        w.cli.raising_disconnect = True
        case['_handlers']['disconnect_handler_raises'] = True
        rec.count('raising_disconnect_handlers')
    state = {'cyc': 0}

    def V(key, msg):
        # known finding K3a: everything observed in or after a cycle whose
        # connect handler called disconnect() has that mechanism
        if any(c[3] == 'client-in-connect' and c[0] == 'ok'
               for c in case['cycles'][:state['cyc'] + 1]):
            key = 'client-disconnect-in-connect-handler'
        rec.viol(key, msg + ' | client=%s handlers=%r cycles=%r' % (
            'Client' if kind == 'T' else 'AsyncClient' if kind == 'A' else
            'AsyncClient over a real aiohttp.ClientSession',
            case.get('_handlers'), case['cycles']), case)
    try:
        idle_noops(rec, w, V)
        for i, (o, t, p, e) in enumerate(case['cycles']):
            rec.key('%s/%s/%s/%s/%s/%d' % (kind, o, t, p, e, i))
            state['cyc'] = i
            ok = one_cycle(rec, w, V, case, i, o, t, p, e, rng)
            if not ok:
                break
            if i > 0:
                rec.count('reusable')
            idle_noops(rec, w, V)
            if case.get('rereg') and i + 1 < len(case['cycles']):
                # between two connections the application registers a
                # disconnect handler of the other form on the same client
                legacy = not legacy
                w.cli.reregister_disconnect(legacy)
                case['_handlers']['legacy_disconnect'] = \
                    'switched between connections'
                rec.count('handlers_reregistered')
    finally:
        w.teardown()
    if rec.evaluations % 157 == 1:
        rec.sample(case)


def run_preempt(rec, case):
    """Two parties end the connection at once (application disconnect() vs
    the read loop receiving CLOSE / the transport failing) on the OS-thread
    backend with line-level pre-emption inside the client's functions."""
    from vf import preempt
    rec.evaluations += 1
    transport, racer, seed = case['transport'], case['racer'], case['sched']
    w = cli.make_world('T', script={'pi': PI, 'pt': PT}, policy='random',
                       seed=seed, yield_prob=0.2, backend='thread',
                       request_timeout=5)
    preempt.install(w.sched, seed, p=0.2)

    def V(key, msg):
        rec.viol(key, msg + ' | PREEMPT client=Client transport=%s racer=%s '
                 'seed=%d' % (transport, racer, seed), case)
    try:
        c, srv = w.cli, w.srv
        r = c.call('connect', 'http://srv.test/', transports=[transport])
        w.run_until(lambda: r['done'], 30)
        if not r['done'] or r['exc'] is not None:
            V('connect-failed', 'connect: %r' % (r['exc'],))
            return
        w.quiesce()
        rec.count('preempt_races')
        if racer == 'server-close':
            if transport == 'polling':
                srv.push('1')
            else:
                srv.ws.push('1')
        elif racer == 'drop':
            srv.dropped = True
            if transport == 'polling':
                srv.pollq.put(None)
            else:
                srv.ws.server_close()
        c.call('disconnect')
        if racer == 'two-disconnects':
            c.call('disconnect')
        w.quiesce()
        w.run_until(lambda: c.c.state == 'disconnected' and
                    not w.live_client_tasks(), 60)
        w.advance(12)
        ev, pre = preempt.uninstall()
        rec.count('preempt_line_events', ev)
        rec.count('preemptions', pre)
        dis = [e for e in c.events if e['ev'] == 'disconnect']
        if len(dis) > 1:
            V('client-disconnect-race', 'two parties ended the '
              'connection at once: %d disconnect events %r' % (
                  len(dis), [d['reason'] for d in dis]))
        elif len(dis) == 0:
            V('no-disconnect-event', 'no disconnect event; state=%r' %
              c.c.state)
        elif c.c.state != 'disconnected' or c.c.sid is not None:
            V('state-not-reset-under-preemption', 'state=%r sid=%r' % (
                c.c.state, c.c.sid))
        rec.key('preempt/%s/%s/%d' % (transport, racer, len(dis)))
    finally:
        preempt.uninstall()
        w.teardown()


def plan(tier, seed):
    rng = gen.mkrng('c08', seed)
    cases = []
    cells = []
    for o in OPENS:
        for t in TRANSPORTS:
            if o != 'ok':
                cells.append((o, t, 'ok', 'server-close'))
                continue
            probes = PROBES if t == 'upgrade' else ['ok']
            for p in probes:
                for e in ENDERS:
                    cells.append((o, t, p, e))
    good = [c for c in cells if c[0] == 'ok']
    # R = the asyncio client over a REAL aiohttp.ClientSession (in-memory
    # pipes to an HTTP/1.1 + RFC 6455 front-end of the scripted server)
    for kind in 'TAR':
        scheds = [0] if kind in 'AR' else (
            [0, 1 + seed, 2 + seed] if tier == 'quick' else
            [0] + [seed * 1000 + k for k in range(1, 100)])
        for sc in scheds:
            for cell in cells:
                # every cell as the first cycle, followed by a good one
                # (reusability), and after a good one
                nxt = rng.choice(good)
                cases.append({'kind': kind, 'sched': sc,
                              'cycles': [list(cell), list(nxt)]})
            n3 = 40 if tier == 'quick' else 3000
            for _ in range(n3):
                cases.append({'kind': kind, 'sched': sc, 'cycles': [
                    list(rng.choice(cells)) for _ in range(3)]})
    for c in cases[::3]:
        c['rereg'] = True
    for c in cases[1::4]:
        c['boomdis'] = True
    rng.shuffle(cases)
    n = 16
    shards = [{'cases': cases[i::n]} for i in range(n)]
    pre = []
    for sd in (range(1, 6) if tier == 'quick' else range(1, 600)):
        for tr in ('polling', 'websocket'):
            for racer in ('server-close', 'drop', 'two-disconnects'):
                pre.append({'preempt': True, 'transport': tr, 'racer': racer,
                            'sched': seed * 10000 + sd})
    k = 1 if tier == 'quick' else 4
    for i in range(k):
        shards.append({'cases': pre[i::k]})
    return shards


def dispatch(rec, case):
    if case.get('preempt'):
        run_preempt(rec, case)
    else:
        run_case(rec, case)


def run_shard(spec):
    rec = Rec()
    scen.run_cases(rec, spec['cases'], dispatch)
    return rec.result()


replay = scen.simple_replay(dispatch)

"""C07 - heartbeat: periodic PING, dead peers dropped in bounded time, live
peers never.

Monitor: timing checker over virtual timestamps recorded at the boundary
(PING hand-off times, PONG send times, disconnect events, poll completions):
 (a) PING schedule, (b) accuracy for timely peers, (c) detection bound for
 silent peers, (d) send-after-deadline with monitoring off, (e) starved poll.
Everything is decided in virtual time; wall-clock never enters a verdict.
"""
from vf import gen, hist, scen
from vf.rec import Rec

PROPERTY = 'C07'
LEVEL = 'exploration'
RULE = ('timelines over the grid ping_interval {0.5,1,1.5,25,0.3} x '
        'ping_timeout {0.25,1,20,0.1,=interval} x grace {0,0.5,5} x sessions '
        '{1,3,8} (polling / websocket / upgraded, staggered opens) x monitor '
        '{on,off} x ws read-timeout modelled or not x PONG delay in {0, pt/2, '
        'pt-2^-10} x random extra traffic (sends, posts); each '
        'timeline runs >= 20 heartbeat cycles, then a seeded subset of peers '
        'goes silent, in half of the monitored timelines under continuous client '
        'churn (a session connecting / leaving every ping_timeout/5). distinct = distinct (server, pi, pt, n, monitor, '
        'transport mix, delay class) configurations x oracle kinds evaluated')
ASSUMPTIONS = ['PONG delay exactly equal to ping_timeout is not generated: at '
               'equality the poll / read deadline of interval+timeout falls at '
               'the same instant as the next PING and the outcome is an '
               'ordering of simultaneous events',
               'tolerance 2^-20 s on virtual timestamps (epoch 2^20)']
REQUIRED = ['ping_schedule', 'accuracy_cycles', 'detection_bound',
            'detection_under_churn',
            'send_after_deadline', 'starved_poll', 'clock_reads']
SHARD_TIMEOUT = {'quick': 500, 'thorough': 3400}

TOL = 2.0 ** -19
PIS = [0.5, 1, 1.5, 25, 0.3]
PTS = [0.25, 1, 20, 0.1, 'same']


def run_timeline(rec, case):
    rng = gen.mkrng('c07', case['seed'], case['i'])
    srv = rng.choice(['T', 'A'])
    if srv == 'A' and case.get('aio'):
        srv = case['aio']    # asyncio server behind the aiohttp / tornado adapter
        rec.count('histories_on_aiohttp_adapter')
    pi = rng.choice(PIS)
    pt = rng.choice(PTS)
    if pt == 'same':
        pt = pi
    grace = rng.choice([0, 0.5, 5])
    n = rng.choice([1, 3, 8])
    monitor = rng.random() < 0.75
    rto = rng.random() < 0.5
    rec.evaluations += 1
    sim = scen.make_sim(srv, real_ws_driver=bool(case.get('tws')) and not rto,
                        server_kwargs={
        'ping_interval': (pi, grace) if grace else pi, 'ping_timeout': pt,
        'monitor_clients': monitor}, policy='random',
        seed=rng.randrange(1 << 30), yield_prob=rng.choice([0.0, 0.2]),
        ws_read_timeout=rto)
    R = hist.Runner(sim)
    desc = 'server=%s pi=%s pt=%s grace=%s n=%d monitor=%s ws_read_timeout=%s' \
        % (srv, pi, pt, grace, n, monitor, rto)

    def V(key, msg):
        rec.viol(key, msg + ' | ' + desc + ' history=%s' % R.witness(12),
                 case)
    if srv == 'T':
        sim.sched.max_steps = 250000     # a legitimate timeline: < 60 000
    else:
        sim.loop.max_iterations = 250000  # legitimate: < 30 000
    try:
        _timeline(rec, rng, sim, R, V, srv, pi, pt, n, monitor, rto, desc)
    except (RuntimeError, Exception) as e:
        if 'budget exhausted' not in str(e):
            raise
        # a legitimate timeline needs a few thousand scheduling steps; the
        # system generating unbounded activity in bounded virtual time means
        # far more than one PING per interval is being produced
        V('runaway-heartbeat-activity', 'scheduling budget exhausted at '
          'virtual t=%.3f: %s' % (sim.now, e))
    finally:
        sim.teardown()


def _timeline(rec, rng, sim, R, V, srv, pi, pt, n, monitor, rto, desc):
    delays = [0, pt / 2.0, pt - 2.0 ** -10]
    modes = []
    if (len(desc) + int(pi * 8)) % 3 == 0:
        # the very first connection this server sees is refused by the
        # application; everything after it is as usual
        rec.count('first_connection_refused')
        sim.connect_script = [False]
        sim.open_polling() if int(pt * 16) % 2 else sim.open_ws()
        sim.quiesce()
    for k in range(n):
        m = rng.choice(['polling', 'websocket', 'upgraded'])
        d = rng.choice(delays)
        s = R.open('websocket' if m == 'websocket' else 'polling',
                   autopoll=True, autopong=d)
        if not s.accepted:
            V('open-failed', 'open failed')
            return
        s.open_t = sim.now
        s.delay = d
        s.plan = m
        modes.append(m[0])
        if m == 'upgraded':
            R.upgrade_start(s, 'correct')
            sim.quiesce()
            if not s.upgrade_completed:
                V('upgrade-failed', 'correct upgrade did not complete')
                return
        if rng.random() < 0.5:
            sim.advance(rng.choice([pi / 4.0, pt / 3.0, 0.125]))
    cycles = 22
    horizon = (pi + pt) * cycles
    steps = 40
    for _ in range(steps):
        sim.advance(horizon / steps * rng.choice([0.5, 1, 1.5]))
        s = rng.choice(R.S)
        k = rng.random()
        if k < 0.3:
            R.send(s, 'text')
        elif k < 0.5:
            uid, data, wire = R.up_payload(s, 'text')
            if s.mode == 'websocket':
                R.ws_send(s, wire)
            else:
                R.post_raw(s, wire)
        elif k < 0.58 and not R.ended(s):
            # an upgrade attempt that fails at once (wrong first frame or the
            # socket closed), or a stray second attempt on a session that is
            # on WebSocket already: the heartbeat of the session goes on
            rec.count('failed_upgrade_attempts')
            if s.mode == 'polling' and s.up_state not in ('started',
                                                          'probed'):
                ws = R.upgrade_start(s, 'manual')
                sim.quiesce()
                if rng.random() < 0.5:
                    ws.send('2x')
                    sim.quiesce()
                ws.close()
                sim.quiesce()
                R.upgrade_failed(s)
            elif s.mode == 'websocket':
                ws2, t2 = sim.upgrade_ws(s.h)
                sim.quiesce()
                ws2.close()
                sim.quiesce()
        elif k < 0.64 and not R.ended(s) and s.mode == 'polling' and \
                s.plan == 'polling' and s.delay <= pt / 2.0 and \
                s.up_state not in ('started', 'probed'):
            # an upgrade attempt that is still open when the next PING falls
            # due, and is then aborted by an undecodable frame (the
            # handshake ends with an exception): the PING is delivered by
            # the next poll and the heartbeat goes on
            eps = min(pt / 8.0, 2.0 ** -6)
            last = s.pongs[-1] if s.pongs else s.open_t
            due = last + pi
            if due - eps > sim.now and due - sim.now < horizon / steps:
                rec.count('upgrade_attempts_spanning_a_ping')
                sim.advance(due - eps - sim.now)
                # (while the attempt is open polls are answered NOOP: a PING
                # emitted inside this window reaches the client at its end)
                s.holds = getattr(s, 'holds', []) + [[sim.now, None]]
                ws = R.upgrade_start(s, 'manual')
                sim.quiesce()
                if rng.random() < 0.5:
                    ws.send('2probe')
                    sim.quiesce()
                sim.advance(2 * eps)
                ws.send('x')
                sim.quiesce()
                ws.close()
                sim.quiesce()
                s.holds[-1][1] = sim.now
                R.upgrade_failed(s)
        elif k < 0.72 and not R.ended(s) and s.mode == 'websocket' and \
                s.ws is not None and pi >= 4 * pt:
            # the peer drains one server write slowly - longer than
            # ping_timeout - between two heartbeats which it answers in
            # time: "however ... the server's own sends are timed"
            last = s.pongs[-1] if s.pongs else s.open_t
            due = last + pi
            dur = 1.5 * pt
            if s.pongs and s.pings and s.pongs[-1] >= s.pings[-1] and \
                    due - sim.now > dur + pt / 4.0:
                rec.count('slow_writes_between_heartbeats')
                s.ws.stall(dur)
                R.send(s, 'text')
                sim.advance(dur + pt / 8.0)
        # (no overlapping polls here: a second concurrent GET is a client
        # protocol violation which the server may answer by closing)
    sim.quiesce()
    # (b) accuracy: nobody was disconnected
    for s in R.S:
        rec.count('accuracy_cycles', len(s.pongs))
        d = R.disconnects(s)
        if d:
            extra = s.mode == 'polling' and len([p for p in s.polls
                                                 if not p.done]) > 0
            V('timely-peer-disconnected-%s' % d[0]['reason'].replace(' ', '_'),
              'session %d (%s, PONG delay %.6f <= ping_timeout %.6f) '
              'disconnected with %r at t=%.6f after %d answered PINGs; pings '
              'at %r pongs at %r' % (s.n, s.plan, s.delay, pt, d[0]['reason'],
                                     d[0]['t'], len(s.pongs),
                                     [round(x, 6) for x in s.pings[-3:]],
                                     [round(x, 6) for x in s.pongs[-3:]]))
            return
        # (a) schedule
        if len(s.pings) < 15:
            V('too-few-pings', 'session %d saw %d PINGs in %d cycles' % (
                s.n, len(s.pings), cycles))
            return
        exp = s.open_t + pi
        for k, tping in enumerate(s.pings):
            rec.count('ping_schedule')
            for a, b in getattr(s, 'holds', []):
                if b is not None and a - TOL <= exp <= b + TOL and \
                        exp - TOL <= tping <= b + TOL:
                    # emitted on time; a poll that was already pending gets
                    # it at once, one that started inside the attempt is
                    # answered NOOP and the PING waits for the attempt's end
                    exp = tping
            if abs(tping - exp) > TOL:
                V('ping-schedule', 'session %d (%s): PING #%d handed to the '
                  'client at t=%.9f, expected %.9f (= %s + ping_interval)' % (
                      s.n, s.plan, k, tping, exp,
                      'OPEN' if k == 0 else 'previous PONG'))
                return
            if k < len(s.pongs):
                exp = s.pongs[k] + pi
            else:
                break
    # (c)/(d)/(e): some peers go silent
    victims = [s for s in R.S if rng.random() < 0.6] or [R.S[0]]
    sim.advance(rng.choice([0, pi / 3.0, pt / 2.0]))
    for s in victims:
        # a peer that goes away BETWEEN a PING and its (delayed) PONG, having
        # sent one more message in between: the unanswered PING still counts
        if s.delay > 0 and not R.ended(s) and len(victims) <= 3 and \
                rng.random() < 0.5:
            n0 = len(s.pings)
            sim.run_until(lambda: len(s.pings) > n0, pi + pt)
            if len(s.pings) > n0 and len(s.pongs) < len(s.pings):
                rec.count('vanish_between_ping_and_pong')
                uid, data, wire = R.up_payload(s, 'text')
                if s.mode == 'websocket':
                    R.ws_send(s, wire)
                else:
                    R.post_raw(s, wire)
                sim.quiesce()
        # the starved-poll case: a polling client that stops answering but
        # keeps its poll open (monitor off) - otherwise it just vanishes
        s.keep_poll = (not monitor and s.mode == 'polling' and
                       rng.random() < 0.5)
        s.last_pong = s.pongs[-1] if s.pongs else s.open_t
        s.silent_from = sim.now
        if s.keep_poll:
            s.autopong = None       # still polling, never answers again
        else:
            R.vanish(s)
    bound = pi + 3 * pt
    t0 = sim.now
    if monitor:
        if rng.random() < 0.5:
            # client churn while the silent peers wait for the sweep: a
            # short-lived session connects every ping_timeout/5 and leaves
            # (CLOSE by POST, which reaps it at once) one step later
            rec.count('detection_under_churn')
            t_end = sim.now + bound + pi + pt
            prev = None
            while sim.now < t_end:
                c = R.open('polling', autopoll=True, autopong=0)
                c.plan = 'churn'
                c.delay = 0
                if prev is not None and prev.accepted:
                    R.post_raw(prev, '1')
                prev = c
                sim.advance(pt / 5.0)
        else:
            sim.advance(bound + pi + pt)
        for s in victims:
            rec.count('detection_bound')
            d = R.disconnects(s)
            # the last PONG the server saw defines the deadline
            T = s.last_pong
            if not d:
                V('silent-peer-not-detected', 'session %d (%s) silent since '
                  't=%.6f (last PONG %.6f): no disconnect by t=%.6f' % (
                      s.n, s.plan, s.silent_from, T, sim.now))
            else:
                late = d[0]['t'] - (max(T, s.silent_from - pi - pt) + bound)
                ok_reason = d[0]['reason'] in (
                    'ping timeout', 'transport close', 'transport error')
                if not ok_reason:
                    V('silent-peer-wrong-reason', 'session %d ended with %r' %
                      (s.n, d[0]['reason']))
                # bound counted from the last PONG; a PONG scheduled but not
                # sent because the peer vanished first does not move it
                if d[0]['t'] > T + bound + TOL and \
                        d[0]['t'] > s.silent_from + bound + TOL:
                    V('silent-peer-detected-late', 'session %d (%s): last '
                      'PONG %.6f, silent from %.6f, disconnect %r at %.6f > '
                      'bound %.6f (= last PONG + interval + 3 x timeout)' % (
                          s.n, s.plan, T, s.silent_from, d[0]['reason'],
                          d[0]['t'], T + bound))
    else:
        # monitoring off: run past the deadline, then send
        sim.advance(2 * pi + 2 * pt + 0.5)
        for s in victims:
            d = R.disconnects(s)
            if s.keep_poll:
                rec.count('starved_poll')
                starving = [p for p in s.polls if p.done and p.code == 400]
                if not d or d[0]['reason'] not in ('transport error',
                                                   'ping timeout'):
                    V('starved-poll-not-closed', 'polling session %d kept '
                      'polling without PONGs: disconnect %r' % (
                          s.n, d[0]['reason'] if d else None))
                elif d[0]['reason'] == 'transport error':
                    p = starving[-1] if starving else None
                    if p is None or abs((p.t_end - p.t_start) -
                                        (pi + pt)) > TOL:
                        V('starved-poll-deadline', 'starved poll answered %r '
                          'after %.6f s, expected 400 after exactly interval+'
                          'timeout = %.6f' % (
                              p.status if p else None,
                              (p.t_end - p.t_start) if p else -1, pi + pt))
                continue
            if d:
                # ws read time-out / poll deadline may have ended it already
                if d[0]['reason'] not in ('transport close',
                                          'transport error', 'ping timeout'):
                    V('silent-peer-wrong-reason', 'session %d ended with %r' %
                      (s.n, d[0]['reason']))
                continue
            rec.count('send_after_deadline')
            q0 = (sim.snapshot().get(s.sid) or {}).get('queue', [])
            tk = R.send(s, 'text')
            sim.quiesce()
            d = R.disconnects(s)
            snap = sim.snapshot().get(s.sid)
            if not d or d[0]['reason'] != 'ping timeout':
                V('send-after-deadline-did-not-close', 'monitoring off, peer '
                  'silent since %.6f (PING unanswered): send() at %.6f gave '
                  'disconnect %r' % (s.silent_from, sim.now,
                                     d[0]['reason'] if d else None))
            elif snap is not None and any(
                    q is not None and q[0] == 4 and q not in q0
                    for q in snap['queue']):
                V('send-after-deadline-queued', 'send() after the deadline '
                  'queued the message: %r' % (snap['queue'],))
    clock = sim.sched.clock_reads if srv == 'T' else sim.loop.clock_reads
    rec.count('clock_reads', clock)
    rec.key('%s/%s/%s/%d/%s/%s/%s' % (srv, pi, pt, len(R.S), monitor,
                                      ''.join(sorted(set(s.plan[0]
                                                         for s in R.S))),
                                      rto))
    if rec.evaluations % 97 == 1:
        rec.sample({'config': desc, 'pings': [round(x, 6) for x in
                                              R.S[0].pings[:5]],
                    'pongs': [round(x, 6) for x in R.S[0].pongs[:5]],
                    'ends': [(s.n, [(d['reason'], round(d['t'], 6))
                                    for d in R.disconnects(s)])
                             for s in R.S]})


def plan(tier, seed):
    n = 16
    per = 4000 if tier == 'thorough' else 90
    return [{'seed': seed, 'shard': s, 'n': per} for s in range(n)]


def run_shard(spec):
    rec = Rec()
    cases = [{'seed': spec['seed'], 'i': spec['shard'] * 1000000 + k}
             for k in range(spec['n'])]
    for c in cases[::2]:
        c['aio'] = 'H'
    for c in cases[2::4]:
        c['aio'] = 'N'     # ... and behind the tornado adapter
    for c in cases[1::3]:
        c['tws'] = True    # threaded server: the real simple_websocket driver
    for case in cases:
        scen.run_cases(rec, [case], run_timeline)
        if rec._vkeys.get('runaway-heartbeat-activity', 0) >= 2 or \
                len(rec.inconclusive) >= 3:
            break       # each such case costs tens of seconds; two suffice
    return rec.result()


replay = scen.simple_replay(run_timeline)

"""C20 - gateway middleware routes by path only; static files stay inside
their roots.

Monitor: spies on the four downstreams (engine, static serving, wrapped
application, 404) of the real WSGIApp / ASGIApp, a sys.addaudithook `open`
recorder giving the real path of every file opened while a request is served
(containment in the matched mapping's root), a reference router written from
the statement, and an ASGI lifespan automaton.
"""
import asyncio
import copy
import itertools
import os
import shutil
import sys
import tempfile

from vf import gen, scen
from vf.rec import Rec

PROPERTY = 'C20'
LEVEL = 'exploration'
RULE = ('request paths built from segments {empty, ., .., %2e%2e, names, the '
        'endpoint, names sharing a prefix with the endpoint, mapped names, '
        'file names} up to depth 5 (thorough: exhaustive over a 11-segment '
        'vocabulary to depth 4 + random deeper; quick: depth 3 exhaustive + '
        'random) x static mappings {file, directory with and without trailing '
        'slashes, nested, default-file override as str / dict, explicit '
        'content types, none} x endpoint {engine.io, /a/b/, None (ASGI)} x '
        'wrapped app present/absent x gateway {WSGIApp, ASGIApp}; lifespan: '
        'callbacks {none, sync, async, raising} x wrapped app. distinct = '
        'distinct (gateway, mapping set, endpoint, wrapped, outcome class, '
        'path shape) signatures; every combination serves its requests '
        '(shuffled) from ONE configuration object, ASGI scopes carry a '
        'seeded root_path')
ASSUMPTIONS = ['/<endpoint> without the trailing slash is a don\'t-care (the '
               'two gateways deliberately differ)',
               'the tree contains no symlinks; containment is decided on '
               'os.path.realpath of every file opened during the request',
               'paths containing ".", ".." or empty segments may be refused or '
               'served from inside the root; they may never open a file '
               'outside it']
REQUIRED = ['routing', 'static_containment', 'static_expected', 'fallback',
            'lifespan', 'files_opened']
SHARD_TIMEOUT = {'quick': 400, 'thorough': 3000}

_opened = []
_hook_installed = [False]
_watch = [None]


def _audit(event, args):
    if event == 'open' and _watch[0] is not None:
        p = args[0]
        if isinstance(p, (str, bytes)):
            if isinstance(p, bytes):
                p = p.decode('utf-8', 'replace')
            if p.startswith(_watch[0]) or not os.path.isabs(p):
                _opened.append(p)


def make_tree():
    root = tempfile.mkdtemp(prefix='vf-c20-')
    pub = os.path.join(root, 'public')
    os.makedirs(os.path.join(pub, 'sub', 'deep'))
    os.makedirs(os.path.join(pub, 'name.txt.d'))
    files = {
        'public/index.html': '<h1>index</h1>', 'public/a.txt': 'A',
        'public/app.js': 'js()', 'public/sub/index.html': '<h1>sub</h1>',
        'public/sub/b.css': 'b{}', 'public/sub/deep/c.json': '{"c":1}',
        'public/sub/home.htm': 'home', 'public/noext': 'raw',
        'secret.txt': 'TOP SECRET', 'single.html': '<p>single</p>',
        'public/name.txt.d/x.png': 'png',
        # siblings of the mapped root whose names START with its name
        'public-private/secret.txt': 'SIBLING SECRET',
        'public-private/index.html': 'SIBLING INDEX',
        'public.bak/index.html': 'BACKUP INDEX',
        'publications.txt': 'SIBLING FILE',
    }
    os.makedirs(os.path.join(root, 'public-private'))
    os.makedirs(os.path.join(root, 'public.bak'))
    for rel, content in files.items():
        with open(os.path.join(root, rel), 'w') as f:
            f.write(content)
    return root


def mappings(root):
    pub = os.path.join(root, 'public')
    return {
        'none': {},
        'dir': {'/static': pub},
        'dir-slash': {'/static/': pub + '/'},
        'dir-key-slash': {'/static/': pub},
        'dir-val-slash': {'/static': pub + '/'},
        'file': {'/single': os.path.join(root, 'single.html'),
                 '/': {'filename': os.path.join(pub, 'index.html'),
                       'content_type': 'text/html'}},
        'nested': {'/static': pub, '/static/sub': {
            'filename': os.path.join(pub, 'sub'),
            'content_type': 'text/x-sub'}},
        'default-str': {'/static': pub, '': 'home.htm'},
        'default-dict': {'/static': pub, '': {
            'filename': 'home.htm', 'content_type': 'text/x-home'}},
        'ctype': {'/static': {'filename': pub,
                              'content_type': 'application/x-all'}},
        'root': {'/': pub + '/'},
        # dict forms that leave the content type to the file's extension
        'dict-dir': {'/static': {'filename': pub}},
        'dict-dir-slash': {'/static/': {'filename': pub + '/'}},
        'dict-file': {'/single': {'filename': os.path.join(root,
                                                          'single.html')},
                      '/static': {'filename': pub}},
    }


EXT = {'css': 'text/css', 'gif': 'image/gif', 'html': 'text/html',
       'jpg': 'image/jpeg', 'js': 'application/javascript',
       'json': 'application/json', 'png': 'image/png', 'txt': 'text/plain'}


def ref_static(path, mapping):
    """Reference router for the static mapping: -> None or
    (expected filename, content type, root of the matched mapping, clean)"""
    if not mapping:
        return None
    extra = ''
    key = None
    if path in mapping:
        key = path
    else:
        p = path
        while p != '':
            p, last = p.rsplit('/', 1)
            extra = '/' + last + extra
            if p in mapping:
                key = p
                break
            if p + '/' in mapping:
                key = p + '/'
                break
    if key is None or key == '':
        return None
    target = mapping[key]
    ct = None
    if isinstance(target, dict):
        fn, ct = target['filename'], target.get('content_type')
    else:
        fn = target
    rootdir = fn
    if fn.endswith('/') and extra.startswith('/'):
        extra = extra[1:]
    full = fn + extra
    if full.endswith('/'):
        d = mapping.get('')
        if d is None:
            full += 'index.html'
        elif isinstance(d, str):
            full += d
        else:
            full += d['filename']
            ct = d.get('content_type', ct)
    if ct is None:
        ct = EXT.get(full.rsplit('.')[-1], 'application/octet-stream')
    segs = extra.split('/')
    clean = not any(s in ('.', '..') for s in segs)
    return full, ct, rootdir, clean


class Spy:
    def __init__(self):
        self.engine = 0
        self.other = 0


def run_wsgi(path, mapping, endpoint, wrapped, spy, appbox=None):
    import engineio
    if appbox is not None and 'app' in appbox:
        # the gateway object of this combination, as in a deployment; its
        # downstream spies report to the current request's counters
        appbox['spy'][0] = spy
        return _call_wsgi(appbox['app'], path)
    holder = [spy]
    spy = type('SpyProxy', (), {
        'engine': property(lambda self: holder[0].engine,
                           lambda self, v: setattr(holder[0], 'engine', v)),
        'other': property(lambda self: holder[0].other,
                          lambda self, v: setattr(holder[0], 'other', v))})()

    class Eng:
        def handle_request(self, environ, start_response):
            spy.engine += 1
            start_response('200 OK', [('Content-Type', 'text/plain')])
            return [b'ENGINE']

    def other(environ, start_response):
        spy.other += 1
        start_response('200 OK', [('Content-Type', 'text/plain')])
        return [b'OTHER']
    app = engineio.WSGIApp(Eng(), other if wrapped else None,
                           static_files=mapping, engineio_path=endpoint)
    if appbox is not None:
        appbox['app'], appbox['spy'] = app, holder
    return _call_wsgi(app, path)


def _call_wsgi(app, path):
    res = {}

    def sr(status, headers, exc_info=None):
        res['status'] = status
        res['headers'] = headers
    environ = {'REQUEST_METHOD': 'GET', 'PATH_INFO': path,
               'QUERY_STRING': '', 'wsgi.url_scheme': 'http',
               'SERVER_NAME': 'x', 'SERVER_PORT': '80'}
    try:
        body = b''.join(app(environ, sr))
    except Exception as e:
        return {'exc': e}
    res['body'] = body
    return res


def run_asgi(path, mapping, endpoint, wrapped, spy, root_path=None,
             appbox=None):
    import engineio
    if appbox is not None and 'app' in appbox:
        appbox['spy'][0] = spy
        return _call_asgi(appbox['app'], path, root_path)
    holder = [spy]
    spy = type('SpyProxy', (), {
        'engine': property(lambda self: holder[0].engine,
                           lambda self, v: setattr(holder[0], 'engine', v)),
        'other': property(lambda self: holder[0].other,
                          lambda self, v: setattr(holder[0], 'other', v))})()

    class Eng:
        async def handle_request(self, scope, receive, send):
            spy.engine += 1
            await send({'type': 'http.response.start', 'status': 200,
                        'headers': [(b'Content-Type', b'text/plain')]})
            await send({'type': 'http.response.body', 'body': b'ENGINE'})

    async def other(scope, receive, send):
        spy.other += 1
        await send({'type': 'http.response.start', 'status': 200,
                    'headers': [(b'Content-Type', b'text/plain')]})
        await send({'type': 'http.response.body', 'body': b'OTHER'})
    app = engineio.ASGIApp(Eng(), other if wrapped else None,
                           static_files=mapping, engineio_path=endpoint)
    if appbox is not None:
        appbox['app'], appbox['spy'] = app, holder
    return _call_asgi(app, path, root_path)


def _call_asgi(app, path, root_path):
    res = {'body': b''}

    async def receive():
        return {'type': 'http.request', 'body': b'', 'more_body': False}

    async def send(ev):
        if ev['type'] == 'http.response.start':
            res['status'] = str(ev['status'])
            res['headers'] = [(k.decode(), v.decode())
                              for k, v in ev['headers']]
        else:
            res['body'] += ev.get('body', b'')
    scope = {'type': 'http', 'path': path, 'method': 'GET', 'headers': [],
             'query_string': b''}
    if root_path is not None:
        # (ASGI: "path" is the full path; root_path only tells where the
        # application is mounted - routing is by path)
        scope['root_path'] = root_path
    try:
        loop = asyncio.new_event_loop()
        try:
            loop.run_until_complete(app(scope, receive, send))
        finally:
            loop.close()
    except Exception as e:
        return {'exc': e}
    return res


def check_path(rec, root, gateway, mname, mapping, endpoint, wrapped, path,
               case, live=None, appbox=None):
    """`mapping` is the pristine configuration (the reference reads it);
    `live` is the configuration object the gateway is given - the same one
    for every request of a combination, as in a deployment, so that whatever
    a request leaves behind in it is seen by the requests after it."""
    rec.evaluations += 1
    spy = Spy()
    del _opened[:]
    _watch[0] = root
    try:
        if gateway == 'wsgi':
            res = run_wsgi(path, mapping if live is None else live, endpoint,
                           wrapped, spy, appbox)
        else:
            res = run_asgi(path, mapping if live is None else live, endpoint,
                           wrapped, spy, case.get('root_path'), appbox)
    finally:
        _watch[0] = None
    opened = [os.path.realpath(p) for p in _opened]
    rec.count('files_opened', len(opened))
    desc = 'gateway=%s mapping=%s endpoint=%r wrapped=%r path=%r%s' % (
        gateway, mname, endpoint, wrapped, path,
        (' scope root_path=%r' % case['root_path'])
        if case.get('root_path') is not None else '')

    def V(key, msg):
        rec.viol(key, msg + ' | ' + desc, dict(case, path=path))
    ep = None
    if endpoint is not None:
        ep = endpoint if endpoint.startswith('/') else '/' + endpoint
        if not ep.endswith('/'):
            ep += '/'
    under = endpoint is None or path.startswith(ep)
    dontcare = ep is not None and path == ep[:-1]
    rec.count('routing')
    if 'exc' in res:
        V('gateway-raises-%s' % type(res['exc']).__name__,
          'request raised %r' % (res['exc'],))
        return 'exc'
    if under:
        if spy.engine != 1 or spy.other or opened:
            V('endpoint-path-not-routed-to-engine', 'engine calls=%d other=%d '
              'files opened=%r' % (spy.engine, spy.other, opened))
        return 'engine'
    if spy.engine and not dontcare:
        V('foreign-path-reached-engine', 'a path outside the endpoint reached '
          'the Engine.IO server')
        return 'engine!'
    if dontcare and spy.engine:
        return 'engine-noslash'
    # static containment: every file opened lies inside the matched root
    r = ref_static(path, mapping)
    rec.count('static_containment')
    if opened:
        if r is None:
            V('file-served-without-mapping', 'files opened %r for a path that '
              'matches no mapping' % (opened,))
            return 'leak'
        full, ct, rootdir, clean = r
        rr = os.path.realpath(rootdir)
        for o in opened:
            if not (o == rr or o.startswith(rr.rstrip('/') + '/')):
                V('static-file-outside-root', 'served %r which is outside the '
                  'mapped %r' % (o, rr))
                return 'escape'
    served = spy.engine == 0 and spy.other == 0 and \
        res.get('status', '').startswith('200')
    if r is not None and r[3]:
        full, ct, rootdir, clean = r
        rec.count('static_expected')
        if os.path.isfile(full):
            with open(full, 'rb') as f:
                want = f.read()
            if not served or res['body'] != want:
                V('mapped-file-not-served', 'existing mapped file %r not '
                  'served: status=%r other=%d body=%r' % (
                      full, res.get('status'), spy.other, res['body'][:30]))
                return 'missed'
            cts = [v for k, v in res['headers'] if k.lower() == 'content-type']
            if cts != [ct]:
                V('static-content-type', 'content type %r, expected %r for %r'
                  % (cts, ct, full))
            return 'static'
        if served:
            V('non-file-served', 'status 200 from the static branch although '
              '%r is not an existing file' % (full,))
            return 'ghost'
    if served:
        return 'static-unclean'
    # fallback
    rec.count('fallback')
    if wrapped:
        if spy.other != 1 or res['body'] != b'OTHER':
            V('not-forwarded-to-wrapped-app', 'wrapped app calls=%d status=%r'
              % (spy.other, res.get('status')))
        return 'other'
    if not res.get('status', '').startswith('404'):
        V('no-404', 'unmatched path answered %r' % (res.get('status'),))
    return '404'


SEGS = ['', '.', '..', '%2e%2e', 'static', 'sub', 'a.txt', 'index.html',
        'engine.io', 'engine.iox', 'secret.txt', 'public-private']
MORE = ['b.css', 'deep', 'c.json', 'single', 'a', 'b', 'engine', 'noext',
        'home.htm', 'app.js', 'name.txt.d', 'x.png', 'public', 'staticx',
        'public.bak', 'publications.txt', '..%2f', '%2e%2e%2f', '%2E%2E']


def lifespan_cases(rec):
    import engineio
    # ('raise-base' / 'araise-cancel': what the callback raises is not an
    # Exception subclass - an abort signal of the application's own, or the
    # CancelledError of a task the callback awaited; "raises" is "raises")
    kinds = ['none', 'sync', 'async', 'raise', 'araise', 'raise-base',
             'araise-cancel']

    class Abort(BaseException):
        pass
    for cb, cb2, other in itertools.product(kinds, kinds, [False, True]):
        for phase in ('both', 'startup-only'):
            rec.evaluations += 1
            rec.count('lifespan')
            rec.key('lifespan/%s/%s/%s/%s' % (cb, cb2, other, phase))
            calls = []
            delegated = []

            def mk(name, cb):
                if cb == 'none':
                    return None
                if cb == 'sync':
                    return lambda: calls.append(name)
                if cb == 'raise':
                    def f():
                        calls.append(name)
                        raise RuntimeError('boom')
                    return f
                if cb == 'async':
                    async def g():
                        calls.append(name)
                    return g
                if cb == 'raise-base':
                    def fb():
                        calls.append(name)
                        raise Abort('stop')
                    return fb
                if cb == 'araise-cancel':
                    async def hc():
                        calls.append(name)
                        raise asyncio.CancelledError()
                    return hc

                async def h():
                    calls.append(name)
                    raise RuntimeError('boom')
                return h

            async def otherapp(scope, receive, send):
                delegated.append(scope['type'])
                while True:
                    ev = await receive()
                    if ev['type'] == 'lifespan.startup':
                        await send({'type': 'lifespan.startup.complete'})
                    else:
                        await send({'type': 'lifespan.shutdown.complete'})
                        return

            class Eng:
                async def handle_request(self, *a):
                    pass
            app = engineio.ASGIApp(Eng(), otherapp if other else None,
                                   on_startup=mk('startup', cb),
                                   on_shutdown=mk('shutdown', cb2))
            inbox = [{'type': 'lifespan.startup'}]
            if phase == 'both':
                inbox.append({'type': 'lifespan.shutdown'})
            sent = []

            async def receive():
                if inbox:
                    return inbox.pop(0)
                await asyncio.sleep(3600)

            async def send(ev):
                sent.append(ev['type'])

            async def drive():
                t = asyncio.ensure_future(app({'type': 'lifespan'}, receive,
                                              send))
                for _ in range(50):
                    await asyncio.sleep(0)
                    if t.done():
                        break
                done = t.done()
                if not done:
                    t.cancel()
                    try:
                        await t
                    except BaseException:
                        pass
                elif t.cancelled():
                    raise RuntimeError('the CancelledError of the callback '
                                       'left the application')
                elif t.exception() is not None:
                    raise RuntimeError('left the application: %r' %
                                       (t.exception(),))
                return done
            case = {'lifespan': [cb, cb2, other, phase]}
            try:
                loop = asyncio.new_event_loop()
                try:
                    finished = loop.run_until_complete(drive())
                finally:
                    loop.close()
            except Exception as e:
                rec.viol('lifespan-raises', 'lifespan raised %r (%s)' % (
                    e, case), case)
                continue
            raising = cb in ('raise', 'araise', 'raise-base',
                             'araise-cancel')
            raising2 = cb2 in ('raise', 'araise', 'raise-base',
                               'araise-cancel')
            if other and cb == 'none' and cb2 == 'none':
                want = ['lifespan.startup.complete'] + (
                    ['lifespan.shutdown.complete'] if phase == 'both' else [])
                if delegated != ['lifespan'] or sent != want:
                    rec.viol('lifespan-not-delegated', 'no callbacks and a '
                             'wrapped app: delegated=%r sent=%r' % (
                                 delegated, sent), case)
                continue
            if delegated:
                rec.viol('lifespan-delegated-with-callbacks', 'callbacks '
                         'configured but lifespan passed on', case)
            if raising:
                want = ['lifespan.startup.failed']
            else:
                want = ['lifespan.startup.complete'] + ([
                    'lifespan.shutdown.failed' if raising2 else
                    'lifespan.shutdown.complete'] if phase == 'both' else [])
            if sent != want:
                rec.viol('lifespan-protocol', 'callbacks=%s/%s wrapped=%r '
                         'phase=%s: sent %r, protocol requires %r' % (
                             cb, cb2, other, phase, sent, want), case)
            if cb != 'none' or cb2 != 'none':
                wc = (['startup'] if cb != 'none' else []) + (
                    ['shutdown'] if phase == 'both' and not raising and
                    cb2 != 'none' else [])
                if calls != wc:
                    rec.viol('lifespan-callbacks', 'callbacks ran %r, '
                             'expected %r' % (calls, wc), case)


def lifespan_delegation_cases(rec):
    """No callbacks and a wrapped application that misbehaves on the lifespan
    scope (raises at once - what applications without lifespan support do -,
    reports a failed startup and raises, raises after the shutdown event):
    delegation means the wrapped application alone talks to the server - the
    gateway adds no event of its own and does not hide the exception."""
    import engineio
    for how in ('raises-at-once', 'startup-failed-then-raises',
                'raises-on-shutdown', 'well-behaved'):
        rec.evaluations += 1
        rec.count('lifespan')
        rec.key('lifespan-delegation/' + how)
        own = []

        async def otherapp(scope, receive, send):
            if how == 'raises-at-once':
                raise RuntimeError('lifespan not supported')
            ev = await receive()
            if how == 'startup-failed-then-raises':
                await send({'type': 'lifespan.startup.failed'})
                own.append('lifespan.startup.failed')
                raise RuntimeError('startup failed')
            await send({'type': 'lifespan.startup.complete'})
            own.append('lifespan.startup.complete')
            ev = await receive()
            if how == 'raises-on-shutdown':
                raise RuntimeError('shutdown crashed')
            await send({'type': 'lifespan.shutdown.complete'})
            own.append('lifespan.shutdown.complete')

        class Eng:
            async def handle_request(self, *a):
                pass
        app = engineio.ASGIApp(Eng(), otherapp)
        inbox = [{'type': 'lifespan.startup'}, {'type': 'lifespan.shutdown'}]
        sent = []

        async def receive():
            if inbox:
                return inbox.pop(0)
            await asyncio.sleep(3600)

        async def send(ev):
            sent.append(ev['type'])
        res = {}

        async def drive():
            t = asyncio.ensure_future(app({'type': 'lifespan'}, receive,
                                          send))
            for _ in range(50):
                await asyncio.sleep(0)
                if t.done():
                    break
            res['done'] = t.done()
            if not t.done():
                t.cancel()
                try:
                    await t
                except BaseException:
                    pass
            else:
                res['exc'] = t.exception()
        case = {'lifespan_delegation': how}
        loop = asyncio.new_event_loop()
        try:
            loop.run_until_complete(drive())
        finally:
            loop.close()
        if sent != own:
            rec.viol('lifespan-not-delegated', 'wrapped application (%s) sent '
                     '%r; the server was sent %r' % (how, own, sent), case)
        if not res.get('done'):
            rec.viol('lifespan-not-delegated', 'wrapped application (%s) '
                     'returned / raised, but the gateway is still waiting '
                     'for lifespan events' % how, case)
        elif how != 'well-behaved' and res.get('exc') is None:
            rec.viol('lifespan-not-delegated', 'the exception of the wrapped '
                     'application (%s) was hidden from the server' % how,
                     case)


def run_shard(spec):
    rec = Rec()
    if not _hook_installed[0]:
        sys.addaudithook(_audit)
        _hook_installed[0] = True
    if spec.get('lifespan'):
        lifespan_cases(rec)
        lifespan_delegation_cases(rec)
        return rec.result()
    root = make_tree()
    try:
        maps = mappings(root)
        rng = gen.mkrng('c20', spec['seed'], spec['shard'])
        depth = spec['depth']
        combos = []
        for gw in ('wsgi', 'asgi'):
            for mname in sorted(maps):
                for ep in (['engine.io', '/a/b/'] + ([None] if gw == 'asgi'
                                                      else [])):
                    for wrapped in (False, True):
                        combos.append((gw, mname, ep, wrapped))
        combos = combos[spec['shard']::spec['shards']]
        for gw, mname, ep, wrapped in combos:
            case = {'gateway': gw, 'mapping': mname, 'endpoint': ep,
                    'wrapped': wrapped}
            if gw == 'asgi':
                # scopes with and without a mount prefix announced
                case['root_path'] = rng.choice([
                    None, '', '/static', '/engine.io', '/a', '/a/b', '/sub',
                    '/static/sub'])
            paths = ['/']
            for d in range(1, depth + 1):
                for tup in itertools.product(SEGS, repeat=d):
                    paths.append('/' + '/'.join(tup))
            if len(paths) > spec['cap']:
                head = paths[:1 + len(SEGS) + len(SEGS) ** 2]
                paths = head + rng.sample(paths[len(head):],
                                          spec['cap'] - len(head))
            for _ in range(spec['random']):
                n = rng.randint(1, 7)
                paths.append('/' + '/'.join(rng.choice(SEGS + MORE)
                                            for _ in range(n)))
            paths += ['/a/b/', '/a/b/x', '/a/b', '/a/bx/', '/a',
                      '/engine.io', '/engine.io/', '/engine.io/x?y',
                      '/static', '/static/', '/static/sub', '/static/sub/',
                      '/static/../secret.txt', '/static/sub/../../secret.txt',
                      '/static/../public-private/secret.txt',
                      '/static/../public.bak/', '/static/../publications.txt',
                      '/static/sub/../../public.bak/index.html',
                      '/static/%2e%2e/secret.txt', '/static/..%2fsecret.txt',
                      '/single', '/single/', '/static/name.txt.d',
                      '/static/sub/deep/c.json', '/static//a.txt',
                      '/static/./a.txt', '//static/a.txt', '/staticx/a.txt',
                      '/static/noext', '/static/app.js']
            live = copy.deepcopy(maps[mname])
            appbox = {}
            rng.shuffle(paths)
            for ip, p in enumerate(paths):
                nv, lv = rec.nviolations, len(rec.violations)
                out = check_path(rec, root, gw, mname, maps[mname], ep,
                                 wrapped, p, case, live=live, appbox=appbox)
                if rec.nviolations > nv:
                    # does it depend on the requests served before it?
                    alone = Rec()
                    check_path(alone, root, gw, mname, maps[mname], ep,
                               wrapped, p, case)
                    if not alone.violations and len(rec.violations) > lv:
                        v = rec.violations[-1]
                        v['key'] = 'static-answer-depends-on-earlier-requests'
                        v['msg'] = ('(the same request on a fresh gateway is '
                                    'answered correctly; configuration now: '
                                    '%r) ' % (live,))[:400] + v['msg']
                        v['case'] = dict(v['case'], prior=paths[:ip])
                    live = copy.deepcopy(maps[mname])
                    appbox = {}
                shape = '/'.join('N' if s not in ('', '.', '..', 'static',
                                                  'engine.io')
                                 else s for s in p.split('/')[1:4])
                rec.key('%s/%s/%s/%s/%s/%s' % (gw, mname, ep, wrapped, out,
                                               shape))
            rec.sample({'gateway': gw, 'mapping': mname, 'endpoint': ep,
                        'wrapped': wrapped, 'paths': paths[5:9]}, limit=3)
        if spec['depth'] >= 4:
            rec.extra['exhaustive'] = True
    finally:
        shutil.rmtree(root, ignore_errors=True)
    return rec.result()


def plan(tier, seed):
    n = 15
    if tier == 'thorough':
        sh = [{'seed': seed, 'shard': i, 'shards': n, 'depth': 4,
               'cap': 10 ** 9, 'random': 3000} for i in range(n)]
    else:
        sh = [{'seed': seed, 'shard': i, 'shards': n, 'depth': 3,
               'cap': 500, 'random': 60} for i in range(n)]
    sh.append({'lifespan': True})
    return sh


def replay(case):
    rec = Rec()
    if 'lifespan' in case or 'lifespan_delegation' in case:
        lifespan_cases(rec)
        lifespan_delegation_cases(rec)
        return rec.violations
    if not _hook_installed[0]:
        sys.addaudithook(_audit)
        _hook_installed[0] = True
    root = make_tree()
    try:
        maps = mappings(root)
        live = copy.deepcopy(maps[case['mapping']])
        appbox = {}
        for p in case.get('prior', []):
            check_path(Rec(), root, case['gateway'], case['mapping'],
                       maps[case['mapping']], case['endpoint'],
                       case['wrapped'], p, case, live=live, appbox=appbox)
        check_path(rec, root, case['gateway'], case['mapping'],
                   maps[case['mapping']], case['endpoint'], case['wrapped'],
                   case['path'], case, live=live, appbox=appbox)
    finally:
        shutil.rmtree(root, ignore_errors=True)
    return rec.violations

"""simH: the real engineio.AsyncServer behind the real aiohttp adapter
(engineio.async_drivers.aiohttp) and the real aiohttp web server, on the
virtual asyncio loop. Nothing of aiohttp is faked: its HTTP parser, router,
WebSocket reader/writer run as they are; only the TCP transport is replaced by
an in-memory one, so the simulated client speaks HTTP/1.1 and RFC 6455 BYTES
to the server and observes the bytes it writes back.

The interface is SimA's (vf.simbase.SimBase), so scenarios written for the
ASGI engine run here unchanged as long as they do not reach for ASGI scopes.
"""
import asyncio
import re
import struct
import zlib

from vf.sima import SimA
from vf.simbase import Ticket, PATH

WS_KEY = 'dGhlIHNhbXBsZSBub25jZQ=='
_STATUS = re.compile(rb'^HTTP/1\.[01] (\d{3})(?: [^\r\n]*)?$')
_HEADER = re.compile(rb'^[!#$%&\'*+\-.^_`|~0-9A-Za-z]+:[ \t]*[^\r\n]*$')


def enc_frame(op, payload, fin=True, rsv1=False):
    """One client->server frame (masked, as RFC 6455 requires of clients;
    the masking key is all zeros so that large payloads stay cheap)."""
    n = len(payload)
    hdr = bytes([(0x80 if fin else 0) | (0x40 if rsv1 else 0) | op])
    if n < 126:
        hdr += bytes([0x80 | n])
    elif n < 65536:
        hdr += bytes([0x80 | 126]) + struct.pack('!H', n)
    else:
        hdr += bytes([0x80 | 127]) + struct.pack('!Q', n)
    return hdr + b'\x00\x00\x00\x00' + payload


class MemTransport(asyncio.Transport):
    """In-memory stand-in for the TCP transport of one connection."""
    def __init__(self, conn):
        super().__init__()
        self.conn = conn
        self.closing = False
        self.lost = False
        self.protocol = None

    def get_extra_info(self, name, default=None):
        info = {'peername': ('127.0.0.1', 5555),
                'sockname': ('127.0.0.1', 80)}
        if self.conn.sim.scheme == 'https':
            # a connection accepted on a TLS listener
            info['sslcontext'] = self.conn.sim._tls
        return info.get(name, default)

    def is_closing(self):
        return self.closing

    def write(self, data):
        if self.closing:
            return
        self.conn.on_bytes(bytes(data))

    def writelines(self, parts):
        for p in parts:
            self.write(p)

    def close(self):
        """The server closes the connection."""
        if not self.closing:
            self.closing = True
            self.conn.on_server_close()
            self.conn.sim.loop.call_soon(self._lose)

    abort = close

    def _lose(self, exc=None):
        if not self.lost:
            self.lost = True
            self.closing = True
            if self.protocol is not None:
                self.protocol.connection_lost(exc)

    def drop(self):
        """The client (or the network) drops the connection."""
        self.closing = True
        self.conn.sim.loop.call_soon(self._lose)

    def pause_reading(self):
        pass

    def resume_reading(self):
        pass

    def is_reading(self):
        return True

    def set_write_buffer_limits(self, high=None, low=None):
        pass

    def get_write_buffer_size(self):
        return 0

    def get_write_buffer_limits(self):
        return (0, 0)

    def can_write_eof(self):
        return False

    def set_protocol(self, protocol):
        self.protocol = protocol

    def get_protocol(self):
        return self.protocol


class Conn:
    """One client connection: feeds request bytes, parses what comes back."""
    def __init__(self, sim, ticket, ws=None):
        self.sim = sim
        self.t = ticket
        self.ws = ws
        self.buf = b''
        self.head_done = False
        self.is_ws = False
        self.length = None
        self.chunked = False
        self.status = None
        self.headers = []
        self.body = b''
        self.response_done = False
        self.handler_done = False
        self.tr = MemTransport(self)
        self.proto = sim.http_server()
        sim._conns[id(self.proto)] = self
        self.tr.protocol = self.proto
        self.proto.connection_made(self.tr)

    def feed(self, data):
        if not self.tr.lost:
            self.proto.data_received(data)

    # ---- bytes written by the server
    def on_bytes(self, data):
        self.buf += data
        if not self.head_done:
            i = self.buf.find(b'\r\n\r\n')
            if i < 0:
                return
            head, self.buf = self.buf[:i], self.buf[i + 4:]
            self._parse_head(head)
        if self.is_ws:
            self._parse_frames()
        elif not self.response_done:
            self._parse_body()
        elif self.buf:
            self.t.proto.append('bytes after the complete response: %r' %
                                self.buf[:40])
            self.buf = b''

    def _parse_head(self, head):
        self.head_done = True
        lines = head.split(b'\r\n')
        m = _STATUS.match(lines[0])
        if not m:
            self.t.proto.append('malformed status line %r' % lines[0][:60])
            self.status = -1
        else:
            self.status = int(m.group(1))
        for ln in lines[1:]:
            if not _HEADER.match(ln):
                self.t.proto.append('malformed header line %r' % ln[:60])
                continue
            k, _, v = ln.partition(b':')
            self.headers.append((k.decode('latin-1'),
                                 v.strip().decode('latin-1')))
        self.t.status = self.status
        self.t.headers = self.headers
        hd = {k.lower(): v for k, v in self.headers}
        if self.status == 101 and self.ws is not None:
            self.is_ws = True
            if hd.get('upgrade', '').lower() != 'websocket' or \
                    'sec-websocket-accept' not in hd:
                self.t.proto.append('101 without a WebSocket handshake '
                                    'answer: %r' % (self.headers,))
            ext = hd.get('sec-websocket-extensions', '')
            if ext:
                if not self.ws.offered_deflate:
                    self.t.proto.append('extension %r accepted that was not '
                                        'offered' % ext)
                else:
                    self.ws._negotiated(ext)
            self.ws._accepted()
            return
        if self.t.info.get('method') == 'HEAD' or self.status in (204, 304):
            self.length = 0     # such responses have no body
            # (aiohttp's own answer to a request it could not even parse
            # carries one all the same - it does not know the method then;
            # that is aiohttp's business, not the package's)
            try:
                self.head_slack = int(hd.get('content-length', '0'))
            except ValueError:
                self.head_slack = 0
        elif 'content-length' in hd:
            try:
                self.length = int(hd['content-length'])
            except ValueError:
                self.t.proto.append('Content-Length %r' % hd['content-length'])
                self.length = 0
        elif hd.get('transfer-encoding', '').lower() == 'chunked':
            self.chunked = True
        else:
            self.length = None      # until the connection closes

    def _parse_body(self):
        if self.chunked:
            while True:
                i = self.buf.find(b'\r\n')
                if i < 0:
                    return
                try:
                    n = int(self.buf[:i].split(b';')[0], 16)
                except ValueError:
                    self.t.proto.append('malformed chunk size %r' %
                                        self.buf[:i][:20])
                    self._complete()
                    return
                if len(self.buf) < i + 2 + n + 2:
                    return
                self.body += self.buf[i + 2:i + 2 + n]
                self.buf = self.buf[i + 2 + n + 2:]
                if n == 0:
                    self._complete()
                    return
        elif self.length is not None:
            if len(self.buf) >= self.length:
                self.body = self.buf[:self.length]
                rest = self.buf[self.length:]
                self.buf = b''
                if rest and len(rest) == getattr(self, 'head_slack', -1) \
                        and self.status == 400:
                    rest = b''
                if rest:
                    self.t.proto.append('%d bytes beyond Content-Length' %
                                        len(rest))
                self._complete()
        # else: body ends when the server closes the connection

    def _complete(self):
        if self.response_done:
            return
        self.response_done = True
        self.t.body = self.body
        if self.ws is not None:
            # a WebSocket handshake answered with an ordinary response
            self.ws._refused(self.status, self.body)
        if not self.t.done:
            self.t.finish()
        # the client has its answer: it closes the connection
        self.tr.drop()

    def on_server_close(self):
        if self.is_ws:
            self.ws._server_closed_transport()
        elif self.head_done and not self.response_done:
            if self.length is None and not self.chunked:
                self.body = self.buf
                self.buf = b''
                self._complete()
            else:
                self.t.proto.append('connection closed before the declared '
                                    'body was complete')
                self._complete()
        elif not self.head_done and not self.t.done:
            # closed without any answer
            self.t.no_response = True
            if self.ws is not None:
                self.ws._refused(None, b'')
            self.t.finish()

    # ---- frames written by the server
    def _parse_frames(self):
        while True:
            b = self.buf
            if len(b) < 2:
                return
            fin, op = b[0] & 0x80, b[0] & 0x0f
            rsv1 = bool(b[0] & 0x40)
            if b[0] & 0x30 or (rsv1 and not (self.ws.deflate and
                                             op in (1, 2))):
                # (RSV1 marks a compressed message - on its first frame and
                # only when permessage-deflate was negotiated)
                self.ws.proto.append('reserved bits set in a frame header')
            if b[1] & 0x80:
                self.ws.proto.append('server frame is masked')
            n = b[1] & 0x7f
            off = 2
            if n == 126:
                if len(b) < 4:
                    return
                n = struct.unpack('!H', b[2:4])[0]
                off = 4
            elif n == 127:
                if len(b) < 10:
                    return
                n = struct.unpack('!Q', b[2:10])[0]
                off = 10
            if b[1] & 0x80:
                off += 4
            if len(b) < off + n:
                return
            payload = b[off:off + n]
            self.buf = b[off + n:]
            self.ws._on_server_frame(bool(fin), op, payload, rsv1)


class WsConnH:
    """Client end of a WebSocket connection to the aiohttp server."""
    def __init__(self, sim):
        self.sim = sim
        self.frames = []
        self.sent = []
        self.accepted = False
        self.server_closed = False
        self.client_closed = False
        self.vanished = False
        self.polite = True
        self.ticket = None
        self.handler_done = False
        self.proto = []
        self.on_frame = None
        self.on_accept = None
        self.on_close = None
        self.close_reason = None
        self.close_code = None
        self.conn = None
        self._frag = None
        self.first_read_clk = None
        self.first_read_t = None
        # permessage-deflate (RFC 7692), offered when the simulator says so
        self.offered_deflate = bool(getattr(sim, 'ws_offer_deflate', False))
        self.deflate = False
        self.compressed_in = self.compressed_out = 0

    def _negotiated(self, ext):
        params = [x.strip() for x in ext.split(';')]
        if params[0] != 'permessage-deflate':
            self.proto.append('unknown extension %r' % ext)
            return
        self.deflate = True
        sbits = cbits = 15
        self._s_nct = self._c_nct = False
        for prm in params[1:]:
            k, _, v = prm.partition('=')
            if k == 'server_no_context_takeover':
                self._s_nct = True
            elif k == 'client_no_context_takeover':
                self._c_nct = True
            elif k == 'server_max_window_bits':
                sbits = int(v or 15)
            elif k == 'client_max_window_bits':
                cbits = int(v or 15)
            else:
                self.proto.append('unknown extension parameter %r' % prm)
        self._sbits, self._cbits = sbits, cbits
        self._inf = zlib.decompressobj(-sbits)
        self._def = zlib.compressobj(wbits=-max(9, cbits))
        self.sim.deflate_negotiated = getattr(
            self.sim, 'deflate_negotiated', 0) + 1

    def _deflated(self, data):
        """one outgoing message, compressed (RFC 7692 section 7.2.1)"""
        out = self._def.compress(data) + self._def.flush(zlib.Z_SYNC_FLUSH)
        if self._c_nct:
            self._def = zlib.compressobj(wbits=-max(9, self._cbits))
        self.compressed_out += 1
        return out[:-4] if out.endswith(b'\x00\x00\xff\xff') else out

    # -- what the scenarios do
    @property
    def send_fails(self):
        return self.conn is not None and self.conn.tr.closing and \
            not self.conn.tr.lost

    @send_fails.setter
    def send_fails(self, v):
        # the server's writes fail from now on (peer reset): the transport
        # reports "closing" to the writer, the reader sees nothing
        if v and self.conn is not None:
            self.conn.tr.closing = True

    def send(self, frame):
        self.sent.append({'clk': self.sim.tick(), 't': self.sim.now,
                          'frame': frame})
        if self.conn is None or self.client_closed:
            return
        op, data = (2, bytes(frame)) if isinstance(
            frame, (bytes, bytearray)) else (1, frame.encode('utf-8'))
        if self.deflate and len(self.sent) % 3 != 0:
            # (a client may send any message uncompressed; two in three
            # are compressed)
            self.conn.feed(enc_frame(op, self._deflated(data), rsv1=True))
        else:
            self.conn.feed(enc_frame(op, data))

    def close(self):
        """The client closes: Close frame, then the connection goes away."""
        if not self.client_closed:
            self.client_closed = True
            if self.conn is not None and self.accepted:
                self.conn.feed(enc_frame(8, struct.pack('!H', 1000)))
                self.sim.loop.call_soon(self.conn.tr.drop)
            elif self.conn is not None:
                self.conn.tr.drop()

    def vanish(self):
        self.vanished = True

    def stall(self, dur):
        """(see WsConnT.stall) The transport stops taking bytes for dur:
        aiohttp is told through pause_writing() / resume_writing(), tornado's
        stream gets EWOULDBLOCK from its descriptor until then."""
        if self.conn is None:
            return
        proto, loop = self.conn.proto, self.sim.loop
        stream = getattr(proto, 'stream', None)
        if stream is not None:
            stream.stall_until = float('inf')

            def unstall():
                # (cleared by the timer itself: comparing clock readings
                # that were added up differently is off by an ulp)
                stream.stall_until = 0
                loop.fd_writable(stream._fd)
            loop.call_later(dur, unstall)
        else:
            proto.pause_writing()
            loop.call_later(dur, proto.resume_writing)

    def texts(self):
        return [f['frame'] for f in self.frames]

    def accept_clk_safe(self):
        return getattr(self, 'accept_clk', 1e18)

    # -- what the connection reports
    def _accepted(self):
        self.accepted = True
        self.accept_clk = self.sim.tick()
        if self.on_accept is not None:
            self.on_accept(self)

    def _refused(self, status, body):
        self.server_closed = True
        self.refused_status = status
        self.close_reason = (body or b'').decode('utf-8', 'replace')

    def _server_closed_transport(self):
        if not self.server_closed:
            self.server_closed = True
            self.close_clk = self.sim.tick()
            if self.on_close is not None:
                self.on_close(self)

    def _on_server_frame(self, fin, op, payload, rsv1=False):
        if self.server_closed and op != 8:
            self.proto.append('frame (opcode %d) after the Close frame' % op)
        if op == 0:
            if self._frag is None:
                self.proto.append('continuation frame without a start')
                return
            self._frag[1] += payload
            if fin:
                op, payload, rsv1 = self._frag[0], bytes(self._frag[1]), \
                    self._frag[2]
                self._frag = None
            else:
                return
        elif op in (1, 2) and not fin:
            self._frag = [op, bytearray(payload), rsv1]
            return
        if rsv1 and op in (1, 2):
            try:
                payload = self._inf.decompress(payload + b'\x00\x00\xff\xff')
            except zlib.error as e:
                self.proto.append('compressed message does not inflate: %s'
                                  % e)
                return
            if self._s_nct:
                self._inf = zlib.decompressobj(-self._sbits)
            self.compressed_in += 1
        if op == 1:
            try:
                data = payload.decode('utf-8')
            except UnicodeDecodeError:
                self.proto.append('text frame that is not UTF-8')
                return
        elif op == 2:
            data = bytes(payload)
        elif op == 8:
            if self.server_closed:
                return
            self.server_closed = True
            self.close_clk = self.sim.tick()
            if len(payload) >= 2:
                self.close_code = struct.unpack('!H', payload[:2])[0]
                self.close_reason = payload[2:].decode('utf-8', 'replace')
            if self.on_close is not None:
                self.on_close(self)
            if not self.client_closed and not self.vanished:
                # close handshake: echo, then the connection ends
                self.client_closed = True
                self.conn.feed(enc_frame(8, payload[:2]))
                self.sim.loop.call_soon(self.conn.tr.drop)
            return
        elif op == 9:
            if not self.vanished and not self.client_closed:
                self.conn.feed(enc_frame(10, payload))
            return
        elif op == 10:
            return
        else:
            self.proto.append('frame with opcode %d' % op)
            return
        self.frames.append({'clk': self.sim.tick(), 't': self.sim.now,
                            'frame': data, 'lost': self.vanished})
        if self.on_frame is not None and not self.vanished:
            self.on_frame(self, data)


class _CountingBody:
    """What the adapter hands to the server as wsgi.input, with the sizes
    asked of it recorded on the request's ticket."""
    def __init__(self, real, ticket):
        self._real, self._t = real, ticket

    async def read(self, n=-1):
        self._t.reads.append(n)
        data = await self._real.read(n)
        self._t.read_bytes += len(data)
        return data

    def __getattr__(self, name):
        return getattr(self._real, name)


class SimH(SimA):
    kind = 'A'
    adapter = 'aiohttp'
    ASYNC_MODE = 'aiohttp'
    _tls = object()

    def _make_app(self, app_kwargs):
        from aiohttp import web
        self._conns = {}
        real = self.server.handle_request
        real_translate = self.server._async['translate_request']
        self.server._async = dict(self.server._async)

        def translate(request):
            environ = real_translate(request)
            conn = self._conns.get(id(request.protocol))
            if conn is not None and 'wsgi.input' in environ:
                environ['wsgi.input'] = _CountingBody(environ['wsgi.input'],
                                                      conn.t)
            return environ
        self.server._async['translate_request'] = translate

        async def spy(request):
            # (request.transport is None once the connection is lost)
            conn = self._conns.get(id(request.protocol))
            t = conn.t if conn is not None else None
            if t is not None:
                t.task = asyncio.current_task()
                t.c_enter = self.tick()
            try:
                return await real(request)
            except asyncio.CancelledError:
                if t is not None:
                    t.cancelled = True
                raise
            except BaseException as e:
                if t is not None:
                    t.exc = e
                    import traceback
                    t.exc_tb = traceback.format_exc()[-1500:]
                raise
            finally:
                if conn is not None:
                    conn.handler_done = True
                    if conn.ws is None and conn.tr.lost and not t.done:
                        # the client went away: nobody is left to answer
                        t.no_response = True
                        self.loop.call_soon(self._finish_ws, t, None)
                    if conn.ws is not None:
                        conn.ws.handler_done = True
                        conn.ws.handler_end_clk = self.tick()
                        if not conn.ws.accepted:
                            conn.ws.server_closed = True
                        if not t.done:
                            self.loop.call_soon(self._finish_ws, t)
        self.server.handle_request = spy
        self.mw_delay = 0

        @web.middleware
        async def slow_middleware(request, handler):
            # an application middleware that awaits before the Engine.IO
            # handler runs (only when a scenario asks for it)
            if self.mw_delay:
                await asyncio.sleep(self.mw_delay)
            return await handler(request)
        self.webapp = web.Application(middlewares=[slow_middleware])
        self.server.attach(self.webapp, **(app_kwargs or {}))
        self.runner = web.AppRunner(self.webapp, access_log=None)
        task = self.loop.create_task(self.runner.setup())
        self.loop.quiesce()
        task.result()
        self.http_server = self.runner.server
        self.app = None

    def _finish_ws(self, t, status=403):
        if not t.done:
            if t.status is None:
                t.status = status
            t.finish()

    def new_ws(self):
        return WsConnH(self)

    def request(self, method, q, headers=None, body=None, declared=None,
                ws=None, path=PATH, raw_query=None, **unsupported):
        if unsupported:
            raise TypeError('simH does not take %r' % sorted(unsupported))
        t = Ticket(self, 'request', {'method': method, 'q': q,
                                     'ws': ws is not None})
        self.tickets.append(t)
        t.no_response = False
        conn = Conn(self, t, ws)
        t.conn = conn
        if ws is not None:
            ws.conn = conn
        qs = raw_query if raw_query is not None else self.qs(q)
        hs = []
        given = {k.lower() for k in (headers or {})}
        if self.host is not None and 'host' not in given:
            hs.append(('Host', self.host))
        if body is not None or declared is not None:
            if 'content-length' not in given:
                hs.append(('Content-Length', str(
                    len(body or b'') if declared is None else declared)))
            if 'content-type' not in given:
                hs.append(('Content-Type', 'text/plain;charset=UTF-8'))
        if ws is not None:
            hs.append(('Sec-WebSocket-Key', WS_KEY))
            hs.append(('Sec-WebSocket-Version', '13'))
            if ws.offered_deflate:
                hs.append(('Sec-WebSocket-Extensions',
                           'permessage-deflate; client_max_window_bits'))
        for k, v in (headers or {}).items():
            if v is None:
                hs = [h for h in hs if h[0].lower() != k.lower()]
            elif isinstance(v, (list, tuple)):
                hs += [(k, one) for one in v]   # a repeated header line
            else:
                hs.append((k, v))
        wire_body = body or b''
        if body is not None and 'content-length' in given and \
                (headers or {}).get('content-length',
                                    (headers or {}).get('Content-Length',
                                                        0)) is None:
            # a body WITHOUT a declared length: on the wire that is a chunked
            # upload (the framework hands the server the body and no
            # Content-Length)
            hs.append(('Transfer-Encoding', 'chunked'))
            k = max(1, len(body) // 3)
            wire_body = b''.join(
                b'%x\r\n%s\r\n' % (len(body[i:i + k]), body[i:i + k])
                for i in range(0, len(body), k)) + b'0\r\n\r\n'
        head = '%s %s%s HTTP/1.1\r\n' % (method, path,
                                         ('?' + qs) if qs else '')
        head += ''.join('%s: %s\r\n' % h for h in hs) + '\r\n'
        if self.client_gone_early:
            # the client drops the connection while an application
            # middleware is still awaiting, i.e. before the Engine.IO handler
            # runs (aiohttp does not cancel handlers by default)
            self.mw_delay = 0.25
            self.loop.call_later(0.125, conn.tr.drop)
        conn.feed(head.encode('latin-1', 'replace') + wire_body)
        return t

    def teardown(self):
        try:
            for t in self.tickets:
                c = getattr(t, 'conn', None)
                if c is not None and not c.tr.lost:
                    c.tr.drop()
            self.loop.quiesce()
        except BaseException:
            pass
        return super().teardown()

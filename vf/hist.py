"""History runner: executes a JSON-able action list against simT or simA with
a reactive reference client (auto-poll, auto-pong, probe handshake script),
and records, at the package boundary, everything the oracles need:
  sends      - application send() calls with unique ids and call/return clocks
  deliveries - every packet handed to the client (poll response / ws frame)
  ups        - client->server messages with unique ids
  causes     - every action that can end a session (end-cause ledger)
  sim.events - the application handler log
"""
import base64

from vf import gen
from vf.simbase import decode_packet, decode_payload


class Sess:
    def __init__(self, n, h):
        self.n = n
        self.h = h
        self.sid = h.sid
        self.mode = h.mode            # polling | websocket (after upgrade too)
        self.opened_ws = h.mode == 'websocket'
        self.ws = h.ws                # established websocket
        self.up_ws = None             # websocket of an upgrade in progress
        self.up_all = []              # every upgrade attempt's websocket
        self.up_state = None          # None|started|probed|done|failed
        self.polls = []
        self.autopoll = False
        self.autopong = None          # None or delay
        self.nsend = 0
        self.nup = 0
        self.accepted = h.sid is not None
        self.gone = False
        self.frames_seen = 0
        self.upgrade_begun_clk = None
        self.upgrade_end_clk = None
        self.upgrade_completed = False
        self.pongs = []
        self.pings = []
        self.want_upgrade = None
        self.eager_with_pending_poll = False
        self.upgrade_done_clk = None


class Runner:
    def __init__(self, sim):
        self.sim = sim
        self.S = []
        self.sends = []
        self.deliveries = []
        self.delivered_other = []     # non-MESSAGE packets: (s, type, t, chan)
        self.ups = []
        self.causes = []
        self.posts = []
        self.log = []                 # action log for witnesses
        self.harvested = set()
        self.up_issue = {}            # uid -> clock at which it was issued

    # ----------------------------------------------------------- recording
    def _msg_id(self, data):
        if isinstance(data, (bytes, bytearray)):
            try:
                data = bytes(data).decode('ascii')
            except UnicodeDecodeError:
                return None
        if isinstance(data, dict):
            data = data.get('id')
        if isinstance(data, str) and data[:1] in 'MU':
            return data.split('|')[0]
        return None

    def _deliver(self, s, packets, via, chan, c_start, c_end, t):
        for pos, (tp, data) in enumerate(packets):
            if tp == 4:
                self.deliveries.append({
                    's': s.n, 'id': self._msg_id(data), 'data': data,
                    'via': via, 'chan': chan, 'pos': pos, 'c_start': c_start,
                    'c_end': c_end, 't': t})
            else:
                self.delivered_other.append({
                    's': s.n, 'type': tp, 'data': data, 'via': via,
                    'chan': chan, 't': t, 'c_start': c_start, 'c_end': c_end})
                if tp == 2:
                    s.pings.append(t)
                    if s.autopong is not None and not s.gone:
                        self._pong(s, via)

    def _pong(self, s, via):
        d = s.autopong

        def fire():
            if s.gone:
                return
            s.pongs.append(self.sim.now)
            if s.ws is not None and s.mode == 'websocket':
                s.ws.send('3')
            else:
                self.sim.post(s.h, '3')
        self.sim.after(d, fire)

    def _on_poll_done(self, s, tk):
        if tk in self.harvested:
            return
        self.harvested.add(tk)
        tk.packets = None
        if tk.code == 200 and tk.body is not None and tk.exc is None:
            try:
                text = tk.payload_text()
                if getattr(s, 'jsonp', None) is not None:
                    from vf import jsonp
                    idx, text, legacy = jsonp.parse(text)
                tk.packets = decode_payload(text)
            except Exception:
                tk.packets = None
                tk.garbled = True
            if tk.packets is not None:
                self._deliver(s, tk.packets, 'poll', 'p%d' % id(tk),
                              tk.c_start, tk.c_end, tk.t_end)
        ws = getattr(s, 'want_upgrade', None)
        if ws is not None and not [p for p in s.polls if not p.done]:
            s.want_upgrade = None
            if not ws.client_closed and not s.gone:
                ws.send('5')
                self._complete_upgrade(s, ws)
        if s.autopoll and not s.gone and tk.code == 200 and \
                s.mode == 'polling' and tk.packets and \
                not any(p[0] in (1,) for p in tk.packets):
            # a real client polls again unless told to stop; NOOP-only
            # answers during an upgrade do not restart the poll loop
            if not all(p[0] == 6 for p in tk.packets):
                s.noop_only = 0
                self.poll(s)
            elif s.up_state not in ('started', 'probed') and \
                    getattr(s, 'noop_only', 0) < 3:
                # a NOOP outside an upgrade does not pause the poll loop
                # (bounded, so that a server answering NOOP forever cannot
                # make the reference client spin)
                s.noop_only = getattr(s, 'noop_only', 0) + 1
                self.poll(s)

    def _on_frame(self, s, ws, frame, established):
        try:
            pk = decode_packet(frame)
        except Exception:
            return
        if not established:
            # frames on the upgrade socket before completion
            script = getattr(ws, 'script', None)
            if s.up_state == 'started' and frame == '3probe' and \
                    script in ('correct', 'eager'):
                s.up_state = 'probed'
                pending = [p for p in s.polls if not p.done]
                if script == 'correct' and pending:
                    # like real clients: pause polling, i.e. wait for the
                    # in-flight poll (released by the NOOP) before UPGRADE
                    s.want_upgrade = ws
                else:
                    if pending:
                        s.eager_with_pending_poll = True
                    ws.send('5')
                    self._complete_upgrade(s, ws)
            elif s.up_state == 'started' and frame == '3probe':
                s.up_state = 'probed'
            if frame != '3probe':
                clk = self.sim.tick()
                n0 = len(self.deliveries)
                self._deliver(s, [pk], 'ws', 'w%d' % id(ws), clk, clk,
                              self.sim.now)
                if not any(isinstance(f['frame'], str) and
                           f['frame'][:1] == '5' for f in ws.sent):
                    for d in self.deliveries[n0:]:
                        # handed over on a socket on which the client has
                        # not sent UPGRADE (decided on what it put on the
                        # wire, not on harness state)
                        d['before_upgrade'] = True
            return
        clk = self.sim.tick()
        self._deliver(s, [pk], 'ws', 'w%d' % id(ws), clk, clk, self.sim.now)

    def _complete_upgrade(self, s, ws):
        s.up_state = 'done'
        s.upgrade_completed = True
        s.upgrade_done_clk = self.sim.tick()
        s.ws = ws
        s.mode = 'websocket'
        ws.established = True

    # -------------------------------------------------------------- actions
    def open(self, mode='polling', autopoll=False, autopong=None):
        sim = self.sim
        h = sim.open_ws() if mode == 'websocket' else sim.open_polling()
        s = Sess(len(self.S), h)
        s.autopoll, s.autopong = autopoll, autopong
        self.S.append(s)
        self.log.append(('open', mode, s.n, bool(s.accepted)))
        if s.accepted:
            if mode == 'websocket':
                ws = h.ws
                ws.established = True
                # frames after OPEN
                for f in ws.frames[1:]:
                    self._on_frame(s, ws, f['frame'], True)
                ws.on_frame = lambda c, fr: self._on_frame(s, c, fr, True)
            else:
                self._deliver(s, h.first_packets, 'poll', 'open',
                              h.open_ticket.c_start, h.open_ticket.c_end,
                              h.open_ticket.t_end)
                if autopoll:
                    self.poll(s)
        return s

    def poll(self, s):
        tk = self.sim.poll(s.h, {'j': str(s.jsonp)} if getattr(
            s, 'jsonp', None) is not None else None)
        tk.sess = s.n
        s.polls.append(tk)
        tk.on_done = lambda t: self._on_poll_done(s, t)
        self.log.append(('poll', s.n))
        return tk

    def post_raw(self, s, body, ids=(), cause=None):
        c0 = self.sim.tick()
        tk = self.sim.post(s.h, body)
        tk.sess = s.n
        tk.ids = list(ids)
        self.posts.append(tk)
        if cause:
            ent = {'s': s.n, 'cause': cause, 'c_start': c0, 'ticket': tk,
                   't': self.sim.now}
            self.causes.append(ent)
        self.log.append(('post', s.n, body if len(body) < 80 else body[:80]))
        return tk

    def up_payload(self, s, kind):
        s.nup += 1
        uid = 'U%d.%d' % (s.n, s.nup)
        self.up_issue[uid] = self.sim.tick()
        if kind == 'text':
            return uid, uid + '|t', '4' + uid + '|t'
        if kind == 'json':
            return uid, {'id': uid}, '4{"id":"%s"}' % uid
        if kind == 'float':
            # a text payload that is a JSON float literal: delivered as float
            val = float(s.n * 1000 + s.nup) + 0.25
            return uid, val, '4' + repr(val)
        raw = uid.encode('ascii')
        return uid, raw, 'b' + base64.b64encode(raw).decode('ascii')

    def ws_send(self, s, frame, which='auto', cause=None):
        ws = s.ws if (which == 'est' or (which == 'auto' and s.ws is not None
                                         and s.mode == 'websocket')) \
            else s.up_ws
        if ws is None:
            return None
        if cause:
            self.causes.append({'s': s.n, 'cause': cause,
                                'c_start': self.sim.tick(), 'ws': ws,
                                't': self.sim.now})
        ws.send(frame)
        self.log.append(('ws', s.n, frame if len(repr(frame)) < 60 else '..'))
        return ws

    def upgrade_start(self, s, script='correct'):
        ws, tk = self.sim.upgrade_ws(s.h)
        ws.script = script
        ws.established = False
        s.up_ws = ws
        s.up_all.append(ws)
        s.up_state = 'started'
        ws.on_frame = lambda c, fr: self._on_frame(
            s, c, fr, getattr(c, 'established', False))
        self.log.append(('upgrade_start', s.n, script))
        if script in ('correct', 'eager'):
            ws.send('2probe')
        return ws

    def upgrade_failed(self, s):
        """The client gave up on an upgrade: it resumes polling."""
        s.up_state = 'failed'
        s.want_upgrade = None
        if s.autopoll and not s.gone and s.mode == 'polling' and \
                not [p for p in s.polls if not p.done] and \
                not self.ended(s):
            self.poll(s)

    def send(self, s, kind='text', sid=None):
        s.nsend += 1
        mid = 'M%d.%d' % (s.n, s.nsend)
        if kind == 'text':
            data = mid + '|t'
        elif kind == 'json':
            data = {'id': mid, 'k': [1, 'x']}
        else:
            data = mid.encode('ascii')
        tk = self.sim.app_call('send', sid or s.sid, data)
        self.sends.append({'s': s.n, 'id': mid, 'data': data, 'ticket': tk,
                           'kind': kind})
        self.log.append(('send', s.n, mid))
        return tk

    def disconnect(self, s=None):
        tk = self.sim.app_call('disconnect', *([s.sid] if s else []))
        c0 = tk.c_start
        for x in ([s] if s else self.S):
            self.causes.append({'s': x.n, 'cause': 'server disconnect',
                                'c_start': c0, 'ticket': tk,
                                't': self.sim.now})
        if s is None:
            # also covers sessions that connect before the call returns
            self.causes.append({'s': '*', 'cause': 'server disconnect',
                                'c_start': c0, 'ticket': tk,
                                't': self.sim.now})
        self.log.append(('disconnect', s.n if s else None))
        return tk

    def ws_close(self, s, how='close'):
        ws = s.ws if (s.ws is not None and s.mode == 'websocket') else s.up_ws
        if ws is None:
            return
        if ws is s.ws:
            self.causes.append({'s': s.n, 'cause': 'transport close',
                                'c_start': self.sim.tick(), 'ws': ws,
                                't': self.sim.now})
            s.gone = True
        if how == 'close':
            ws.close()
        else:
            ws.vanish()
        self.log.append(('ws_' + how, s.n))

    def ws_break(self, s):
        """Transport fault: from now on every write of the server on the
        session's established WebSocket fails (reads still work); the client
        is gone for good."""
        ws = s.ws if (s.ws is not None and s.mode == 'websocket') else None
        if ws is None:
            return False
        ws.send_fails = True
        s.gone = True
        s.autopong = None
        # it ends as a failed / closed transport, or - if the server never
        # writes before the deadline - for silence
        self.causes.append({'s': s.n, 'cause': 'transport failure',
                            'c_start': self.sim.tick(), 'ws': ws,
                            't': self.sim.now})
        self.causes.append({'s': s.n, 'cause': 'silence',
                            'c_start': self.sim.tick(), 't': self.sim.now})
        self.log.append(('ws_break', s.n))
        return True

    def vanish(self, s):
        """The client silently goes away (stops polling / answering)."""
        s.gone = True
        s.autopoll = False
        s.autopong = None
        if s.ws is not None and s.mode == 'websocket':
            s.ws.vanish()
        self.causes.append({'s': s.n, 'cause': 'silence',
                            'c_start': self.sim.tick(), 't': self.sim.now})
        self.log.append(('vanish', s.n))

    def settle(self):
        self.sim.quiesce()

    def advance(self, dt):
        self.log.append(('advance', dt))
        self.sim.advance(dt)

    # ------------------------------------------------------------ helpers
    def disconnects(self, s):
        return [e for e in self.sim.events
                if e['sid'] == s.sid and e['ev'] == 'disconnect']

    def ended(self, s):
        return bool(self.disconnects(s))

    def witness(self, limit=60):
        return [list(map(lambda x: x if isinstance(
            x, (int, float, str, bool, type(None))) else repr(x), a))
            for a in self.log[-limit:]]

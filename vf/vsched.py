"""Deterministic virtual-time scheduler for thread-style code.

Tasks are greenlets (default backend) or OS threads passing a baton (backend
'thread', needed only for line-level pre-emption because sys.monitoring
callbacks cannot switch greenlets). Exactly one task runs at a time; every
virtual blocking primitive (VQueue/VEvent/VThread.join/sleep) returns control
to the scheduler, which is driven from outside by the scenario driver:
quiesce() runs until nothing is runnable at the current virtual instant,
advance(dt) additionally fires timers in time order. Choices among runnable
tasks are made by a policy (fifo / seeded random / forced prefix for DFS and
replay) and recorded in `trace`.
"""
import heapq
import time as _time
import queue as _queue
import random
import sys
import threading
import traceback

import greenlet

EPOCH = float(2 ** 20)


class TaskKilled(BaseException):
    pass


class HarnessError(Exception):
    pass


class Task:
    _n = 0

    def __init__(self, sched, fn, args, kwargs, name):
        Task._n += 1
        self.id = Task._n
        self.sched = sched
        self.fn, self.args, self.kwargs = fn, args, kwargs
        self.name = name or getattr(fn, '__name__', 'task')
        self.state = 'new'          # new ready blocked done
        self.reason = None
        self.timer = None
        self.killed = False
        self.exc = None
        self.result = None
        self.joiners = []
        self.waiting_on = None
        self.g = None
        self.th = None
        self.sem = None

    def __repr__(self):
        return '<Task %d %s %s>' % (self.id, self.name, self.state)


SIGS = set()        # distinct schedule signatures executed in this process
STATS = {'runs': 0, 'choices': 0}
# stall detection (vf/scen.py): 'inside' is true while a task of the system
# under test is executing one scheduling step; 't' is when that step began
BUSY = {'inside': False, 't': 0.0}


class Sched:
    def __init__(self, policy='fifo', seed=0, prefix=None, yield_prob=0.0,
                 backend='greenlet', max_steps=2000000):
        self.policy = policy
        self.rng = random.Random(seed)
        self.prefix = list(prefix or [])
        self.yield_prob = yield_prob
        self.backend = backend
        self.now = 0.0
        self.ready = []
        self.timers = []
        self._tseq = 0
        self.current = None
        self.tasks = []
        self.trace = []           # (n_options, chosen)
        self.steps = 0
        self.max_instant = 0
        self.handoffs = 0
        self.max_steps = max_steps
        self.escaped = []         # (task name, exception repr, traceback)
        self.main = greenlet.getcurrent() if backend == 'greenlet' else None
        self._baton = threading.Semaphore(0)   # thread backend: scheduler sem
        self.clock_reads = 0
        self.preempt = None       # optional callable deciding line pre-emption
        self.yield_budget = None  # max yields at signalling ops (enumeration)

    # ------------------------------------------------------------------ time
    def time(self):
        self.clock_reads += 1
        return EPOCH + self.now

    # -------------------------------------------------------------- choices
    def choose(self, n):
        if n <= 1:
            return 0
        i = len(self.trace)
        if i < len(self.prefix):
            c = self.prefix[i] % n
        elif self.policy == 'random':
            c = self.rng.randrange(n)
        else:
            c = 0
        self.trace.append((n, c))
        return c

    # ---------------------------------------------------------------- tasks
    def spawn(self, fn, *args, name=None, **kwargs):
        t = Task(self, fn, args, kwargs, name)
        self.tasks.append(t)
        t.state = 'ready'
        self.ready.append(t)
        return t

    def _run_task(self, t):
        try:
            if t.killed:
                raise TaskKilled()
            t.result = t.fn(*t.args, **t.kwargs)
        except TaskKilled:
            pass
        except greenlet.GreenletExit:
            pass
        except BaseException as e:
            t.exc = e
            self.escaped.append((t.name, repr(e), traceback.format_exc()))
        finally:
            t.state = 'done'
            for j in t.joiners:
                self._wake(j, 'signal')
            t.joiners = []

    def _switch_to(self, t):
        """Scheduler -> task; returns when the task blocks or finishes."""
        self.current = t
        self.handoffs += 1
        if self.backend == 'greenlet':
            if t.g is None:
                t.g = greenlet.greenlet(lambda: self._run_task(t),
                                        parent=self.main)
            t.g.switch()
        else:
            if t.th is None:
                t.sem = threading.Semaphore(0)

                def body():
                    t.sem.acquire()
                    try:
                        self._run_task(t)
                    finally:
                        self._baton.release()
                t.th = threading.Thread(target=body, daemon=True)
                t.th.start()
            t.sem.release()
            self._baton.acquire()
        self.current = None

    def _to_scheduler(self):
        """Task -> scheduler; returns when the task is resumed."""
        t = self.current
        if self.backend == 'greenlet':
            self.main.switch()
        else:
            self._baton.release()
            t.sem.acquire()
        self.current = t

    def _block(self, timeout=None, on=None):
        t = self.current
        if t is None:
            raise HarnessError('blocking virtual primitive called from the '
                               'driver, not from a task')
        if t.killed:
            raise TaskKilled()
        t.state = 'blocked'
        t.reason = None
        t.waiting_on = on
        if timeout is not None:
            self._tseq += 1
            t.timer = (self.now + max(0.0, timeout), self._tseq, t)
            heapq.heappush(self.timers, t.timer)
        self._to_scheduler()
        t.waiting_on = None
        if t.killed:
            raise TaskKilled()
        return t.reason

    def _wake(self, t, reason):
        if t.state == 'blocked':
            t.state = 'ready'
            t.reason = reason
            t.timer = None
            self.ready.append(t)

    def yield_now(self):
        """Cooperative yield of the running task (sleep(0))."""
        t = self.current
        if t is None:
            return
        if t.killed:
            raise TaskKilled()
        t.state = 'ready'
        self.ready.append(t)
        self._to_scheduler()
        if t.killed:
            raise TaskKilled()

    def maybe_yield(self):
        """Scheduling point at a signalling operation (put/start/set)."""
        if self.current is None or self.yield_prob <= 0 or \
                self.current.killed:
            return
        if self.policy == 'random' and len(self.trace) >= len(self.prefix):
            if self.rng.random() < self.yield_prob:
                self.yield_now()
        elif self.yield_budget is None or self.yield_budget > 0:
            # enumeration: yielding here is a binary choice; the number of
            # yields taken per run can be bounded (pre-emption bounding)
            if not self.ready:
                return
            if self.choose(2) == 1:
                if self.yield_budget is not None:
                    self.yield_budget -= 1
                self.yield_now()

    # --------------------------------------------------------------- driver
    def step(self):
        if not self.ready:
            return False
        self.steps += 1
        if self.steps > self.max_steps:
            raise HarnessError('step budget exhausted (livelock?)')
        # steps taken at one and the same virtual instant
        if self.now != getattr(self, '_inst_t', None):
            self._inst_t, self._inst_n = self.now, 0
        self._inst_n += 1
        if self._inst_n > self.max_instant:
            self.max_instant = self._inst_n
        lim = getattr(self, 'instant_budget', None)
        if lim is not None and self._inst_n > lim:
            raise HarnessError('step budget exhausted (livelock?): %d steps '
                               'while the virtual clock stands at %r' % (
                                   self._inst_n, self.now))
        i = self.choose(len(self.ready))
        t = self.ready.pop(i)
        BUSY['t'] = _time.monotonic()
        BUSY['inside'] = True
        try:
            self._switch_to(t)
        finally:
            BUSY['inside'] = False
        return True

    def quiesce(self):
        while self.ready:
            self.step()

    def next_timer(self):
        while self.timers:
            when, seq, t = self.timers[0]
            if t.timer is None or t.timer[1] != seq or t.state != 'blocked':
                heapq.heappop(self.timers)
                continue
            return when
        return None

    def advance(self, dt):
        target = self.now + dt
        self.advance_to(target)

    def advance_to(self, target):
        while True:
            self.quiesce()
            nt = self.next_timer()
            if nt is None or nt > target:
                break
            self.now = max(self.now, nt)
            while True:
                nt2 = self.next_timer()
                if nt2 is None or nt2 > self.now:
                    break
                when, seq, t = heapq.heappop(self.timers)
                self._wake(t, 'timeout')
        self.now = max(self.now, target)

    def run_until(self, pred, horizon):
        """Run (advancing time) until pred() or virtual horizon."""
        target = self.now + horizon
        while not pred():
            if self.ready:
                self.step()
                continue
            nt = self.next_timer()
            if nt is None or nt > target:
                self.now = max(self.now, target) if nt is not None else self.now
                return pred()
            self.now = max(self.now, nt)
            while True:
                nt2 = self.next_timer()
                if nt2 is None or nt2 > self.now:
                    break
                when, seq, t = heapq.heappop(self.timers)
                self._wake(t, 'timeout')
        return True

    # ---------------------------------------------------------- inspection
    def live_tasks(self):
        return [t for t in self.tasks if t.state != 'done']

    def blocked_forever(self):
        """Tasks blocked with no timer: nothing in virtual time wakes them."""
        return [t for t in self.tasks
                if t.state == 'blocked' and t.timer is None]

    def stack_of(self, t):
        frame = None
        if self.backend == 'greenlet':
            frame = t.g.gr_frame if t.g is not None else None
        elif t.th is not None:
            frame = sys._current_frames().get(t.th.ident)
        if frame is None:
            return []
        out = []
        for fs in traceback.extract_stack(frame):
            fn = fs.filename
            short = fn[fn.rfind('/engineio/') + 1:] if '/engineio/' in fn \
                else fn[fn.rfind('/') + 1:]
            out.append('%s:%s' % (short, fs.name))
        return out

    def kill_all(self):
        """Tear down: resume every unfinished task with TaskKilled (bounded
        retries because the code under test has bare except clauses)."""
        zombies = 0
        # evidence: which interleaving this run was (choice sequence)
        STATS['runs'] += 1
        STATS['choices'] += len(self.trace)
        if len(SIGS) < 2000000:
            SIGS.add(hash(tuple(self.trace)))
        for t in list(self.tasks):
            if t.state == 'done':
                continue
            t.killed = True
            if t.state == 'new' or (self.backend == 'greenlet' and t.g is None)\
                    or (self.backend == 'thread' and t.th is None):
                t.state = 'done'
                continue
            for _ in range(12):
                if t.state == 'done':
                    break
                if t in self.ready:
                    self.ready.remove(t)
                t.state = 'ready'
                try:
                    self._switch_to(t)
                except BaseException:
                    break
            if t.state != 'done':
                zombies += 1
        self.ready = []
        self.timers = []
        return zombies


class VQueue:
    """queue.Queue work-alike (unbounded), including unfinished-task
    accounting and the legality of barging."""
    Empty = _queue.Empty

    def __init__(self, sched, maxsize=0):
        self.s = sched
        self.items = []
        self.unfinished_tasks = 0
        self.getters = []
        self.joiners = []
        self.log = None

    def qsize(self):
        return len(self.items)

    def empty(self):
        return not self.items

    def put(self, item, block=True, timeout=None):
        self.items.append(item)
        self.unfinished_tasks += 1
        if self.getters:
            self.s._wake(self.getters.pop(0), 'signal')
        self.s.maybe_yield()

    put_nowait = put

    def get(self, block=True, timeout=None):
        s = self.s
        if s.current is not None and s.current.killed:
            raise TaskKilled()
        deadline = None if timeout is None else s.now + timeout
        while not self.items:
            if not block:
                raise _queue.Empty()
            t = s.current
            if t is None:
                raise HarnessError('blocking get from driver')
            rem = None if deadline is None else deadline - s.now
            if rem is not None and rem <= 0:
                raise _queue.Empty()
            self.getters.append(t)
            r = None
            try:
                r = s._block(rem, on=self)
            finally:
                if t in self.getters:
                    self.getters.remove(t)
            if r == 'timeout' and not self.items:
                raise _queue.Empty()
        return self.items.pop(0)

    def get_nowait(self):
        return self.get(block=False)

    def task_done(self):
        if self.unfinished_tasks <= 0:
            raise ValueError('task_done() called too many times')
        self.unfinished_tasks -= 1
        if self.unfinished_tasks == 0:
            js, self.joiners = self.joiners, []
            for j in js:
                self.s._wake(j, 'signal')

    def join(self):
        while self.unfinished_tasks:
            t = self.s.current
            if t is None:
                raise HarnessError('blocking join from driver')
            self.joiners.append(t)
            try:
                self.s._block(None, on=('join', self))
            finally:
                if t in self.joiners:
                    self.joiners.remove(t)


class VEvent:
    def __init__(self, sched):
        self.s = sched
        self.flag = False
        self.waiters = []

    def is_set(self):
        if self.s.current is not None and self.s.current.killed:
            return True
        return self.flag

    def set(self):
        self.flag = True
        ws, self.waiters = self.waiters, []
        for w in ws:
            self.s._wake(w, 'signal')
        self.s.maybe_yield()

    def clear(self):
        self.flag = False

    def wait(self, timeout=None):
        if self.flag:
            return True
        t = self.s.current
        self.waiters.append(t)
        try:
            self.s._block(timeout, on=self)
        finally:
            if t in self.waiters:
                self.waiters.remove(t)
        return self.flag


class VThread:
    """threading.Thread work-alike running on the scheduler."""
    def __init__(self, sched, group=None, target=None, name=None, args=(),
                 kwargs=None, daemon=None):
        self.s = sched
        self.target, self.args, self.kwargs = target, args, kwargs or {}
        self.name = name or getattr(target, '__qualname__', 'thread')
        self.daemon = daemon
        self.task = None

    def start(self):
        self.task = self.s.spawn(self.target, *self.args, name=self.name,
                                 **self.kwargs)
        self.s.maybe_yield()

    def is_alive(self):
        return self.task is not None and self.task.state != 'done'

    def join(self, timeout=None):
        if self.task is None:
            raise RuntimeError('cannot join thread before it is started')
        if self.task is self.s.current:
            raise RuntimeError('cannot join current thread')
        if self.task.state == 'done':
            return
        me = self.s.current
        self.task.joiners.append(me)
        try:
            self.s._block(timeout, on=('join-thread', self.task.name))
        finally:
            if me in self.task.joiners:
                self.task.joiners.remove(me)


class VTimeModule:
    """Stands in for the `time` module inside the code under test."""
    def __init__(self, sched):
        self.s = sched

    def time(self):
        return self.s.time()

    def sleep(self, dt):
        vsleep(self.s, dt)

    def monotonic(self):
        return self.s.time()


def vsleep(sched, dt):
    if sched.current is None:
        raise HarnessError('sleep from driver')
    if dt is None or dt <= 0:
        sched.yield_now()
    else:
        sched._block(dt, on='sleep')


def async_dict(sched, websocket=None):
    """The `_async` driver dictionary handed to the real threaded Server."""
    return {
        'thread': lambda *a, **k: VThread(sched, *a, **k),
        'queue': lambda *a, **k: VQueue(sched, *a, **k),
        'queue_empty': _queue.Empty,
        'event': lambda *a, **k: VEvent(sched),
        'websocket': websocket,
        'sleep': lambda dt=0: vsleep(sched, dt),
    }

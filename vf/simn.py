"""simN: the real engineio.AsyncServer behind the real tornado adapter
(engineio.async_drivers.tornado) and the real tornado HTTP/1.1 server and
WebSocket implementation, on the virtual asyncio loop. Nothing of tornado is
faked: tornado.httpserver.HTTPServer parses the request bytes, routes them
through a tornado.web.Application to the handler class the package builds
(engineio.get_tornado_handler), and tornado.websocket speaks RFC 6455; only
the socket under tornado's IOStream is replaced by an in-memory one
(BaseIOStream's four fd primitives), registered with the virtual loop through
add_reader()/add_writer() pseudo-descriptors.

The client side, the byte-level response / frame parser and the interface
are simH's.
"""
import asyncio
import asyncio.events
import errno

from vf.simh import SimH

_FD = [1 << 20]


class ConnAddr(tuple):
    """The peer address tornado keeps in the connection context; it carries
    the harness's connection object so that handlers can be matched to the
    request tickets."""
    conn = None


def _stream_class():
    import tornado.iostream

    class MemStream(tornado.iostream.BaseIOStream):
        socket = None       # (HTTPServer looks at it for the address family)

        def __init__(self, proto):
            _FD[0] += 1
            self._fd = _FD[0]
            self.proto = proto
            self.inbox = bytearray()
            self.eof = False
            self.fd_closed = False
            super().__init__()

        # ---- the four primitives of BaseIOStream
        def fileno(self):
            return self._fd

        def close_fd(self):
            if not self.fd_closed:
                self.fd_closed = True
                self.proto.tr.close()

        def write_to_fd(self, data):
            tr = self.proto.tr
            if getattr(self, 'stall_until', 0) > self.proto.sim.now and \
                    not tr.closing:
                # the peer's window is full
                raise BlockingIOError(errno.EWOULDBLOCK, 'would block')
            if tr.closing:
                # the peer is gone / the connection was reset
                raise ConnectionResetError(errno.ECONNRESET,
                                           'connection reset by peer')
            tr.write(bytes(data))
            return len(data)

        def read_from_fd(self, buf):
            if not self.inbox:
                return 0 if self.eof else None
            n = min(len(buf), len(self.inbox))
            buf[:n] = self.inbox[:n]
            del self.inbox[:n]
            return n

        def get_fd_error(self):
            return None

        def set_nodelay(self, value):
            pass

        # ---- what the client side does
        def feed(self, data):
            if self.fd_closed:
                return
            self.inbox += data
            self.proto.sim.loop.fd_ready(self._fd)

        def feed_eof(self):
            if self.fd_closed:
                return
            self.eof = True
            self.proto.sim.loop.fd_ready(self._fd)
    return MemStream


class TornadoProto:
    """Glue between simH's in-memory transport / connection objects (which
    talk to an asyncio.Protocol) and tornado's stream-based server."""
    def __init__(self, sim):
        self.sim = sim
        self.tr = None
        self.stream = None

    def connection_made(self, transport):
        self.tr = transport
        self.sim._in_loop(self._open)

    def _open(self):
        self.stream = self.sim._stream_cls(self)
        addr = ConnAddr(('127.0.0.1', 5555))
        addr.conn = self.sim._conns.get(id(self))
        self.addr = addr
        # (a listener behind a TLS terminator is configured with
        # protocol='https'; tornado then reports that as the request's
        # protocol)
        self.sim.tserver.protocol = 'https' \
            if self.sim.scheme == 'https' else None
        self.sim.tserver.handle_stream(self.stream, addr)

    def data_received(self, data):
        if self.stream is not None:
            self.stream.feed(data)

    def connection_lost(self, exc):
        if self.stream is not None:
            self.stream.feed_eof()


class _CountingPayload:
    """The adapter's wsgi.input with the sizes asked of it recorded."""
    def __init__(self, real, ticket):
        self._real, self._t = real, ticket

    async def read(self, length=None):
        self._t.reads.append(-1 if length is None else length)
        data = await self._real.read(length)
        self._t.read_bytes += len(data)
        return data


class SimN(SimH):
    kind = 'A'
    adapter = 'tornado'
    ASYNC_MODE = 'tornado'

    def _in_loop(self, fn):
        """Run fn with the virtual loop as the running loop (tornado looks
        its IOLoop up from the running asyncio loop)."""
        if asyncio.events._get_running_loop() is self.loop:
            return fn()
        self.loop._enter()
        try:
            return fn()
        finally:
            self.loop._leave()

    def _conn_of(self, handler):
        try:
            addr = handler.request.connection.context.address
            conn = getattr(addr, 'conn', None)
            if conn is None:
                # (the address object is made before the connection object
                # is registered)
                for c in self._conns.values():
                    if getattr(c.proto, 'addr', None) is addr:
                        addr.conn = conn = c
                        break
            return conn
        except AttributeError:
            return None

    def _make_app(self, app_kwargs):
        import engineio
        import tornado.httpserver
        import tornado.web
        self._conns = {}
        self._stream_cls = _stream_class()
        real = self.server.handle_request
        real_translate = self.server._async['translate_request']
        self.server._async = dict(self.server._async)

        def translate(handler):
            environ = real_translate(handler)
            conn = self._conn_of(handler)
            if conn is not None and 'wsgi.input' in environ:
                environ['wsgi.input'] = _CountingPayload(
                    environ['wsgi.input'], conn.t)
            return environ
        self.server._async['translate_request'] = translate

        async def spy(handler):
            conn = self._conn_of(handler)
            t = conn.t if conn is not None else None
            if t is not None:
                t.task = asyncio.current_task()
                t.c_enter = self.tick()
            try:
                return await real(handler)
            except asyncio.CancelledError:
                if t is not None:
                    t.cancelled = True
                raise
            except BaseException as e:
                if t is not None:
                    t.exc = e
                    import traceback
                    t.exc_tb = traceback.format_exc()[-1500:]
                    if conn.ws is not None:
                        # tornado runs the handler of a WebSocket connection
                        # as a task of its own (open() -> ensure_future): an
                        # exception that leaves it has no caller, asyncio
                        # reports it when the task is collected. It is
                        # recorded on the ticket like an exception that
                        # reaches the gateway on the other engines
                        e._vf_on_ticket = True
                raise
            finally:
                if conn is not None:
                    conn.handler_done = True
                    if conn.ws is None and conn.tr.lost and not t.done:
                        # the client went away: nobody is left to answer
                        t.no_response = True
                        self.loop.call_soon(self._finish_ws, t, None)
                    if conn.ws is not None:
                        conn.ws.handler_done = True
                        conn.ws.handler_end_clk = self.tick()
                        if not conn.ws.accepted:
                            conn.ws.server_closed = True
                        if not t.done:
                            self.loop.call_soon(self._finish_ws, t)
        self.server.handle_request = spy
        real_make = self.server._async['make_response']

        def make_response(status, headers, payload, environ):
            handler = environ.get('tornado.handler')
            detached = getattr(handler, 'ws_connection', None) is not None
            r = real_make(status, headers, payload, environ)
            conn = self._conn_of(handler) if handler is not None else None
            if detached and conn is not None and conn.ws is not None:
                # tornado completed the WebSocket handshake (101) before the
                # package saw the request: what the package then answers
                # cannot be sent any more. The harness records the answer
                # the package MEANT to give and reports that (late_refusal
                # says so), so that the oracles written for gateways that
                # can refuse a handshake keep working
                t = conn.t
                t.late_refusal = True
                t.wire_status = t.status
                t.status = int(status.split()[0])
                t.headers = list(headers)
                t.body = payload if isinstance(payload, bytes) else \
                    (payload or '').encode('utf-8')
                conn.ws.late_refusal = True
                conn.ws.accepted = False
                conn.ws.refused_status = t.status
                self.late_refusals += 1
            return r
        self.server._async['make_response'] = make_response
        self.late_refusals = 0
        self.mw_delay = 0
        sim = self

        class Handler(engineio.get_tornado_handler(self.server)):
            async def prepare(self):
                # an application hook that awaits before the Engine.IO
                # handler runs (only when a scenario asks for it)
                if sim.mw_delay:
                    await asyncio.sleep(sim.mw_delay)

        path = (app_kwargs or {}).get('engineio_path', 'engine.io')
        self.handler_class = Handler
        self.webapp = tornado.web.Application(
            [('/%s/' % path.strip('/'), Handler)])
        self.tserver = self._in_loop(
            lambda: tornado.httpserver.HTTPServer(self.webapp))
        self.http_server = lambda: TornadoProto(self)
        self.app = None

"""Hand-written ECMAScript reader for a JSONP polling body:
   ___eio[<n>]("<string literal>");
Returns (index, string value) or raises ValueError saying why the body is not
one complete call statement."""
import re

_HEAD = re.compile(r'^___eio\[(-?\d+)\]\("')
_SINGLE = {'"': '"', '\\': '\\', '/': '/', 'b': '\b', 'f': '\f', 'n': '\n',
           'r': '\r', 't': '\t', 'v': '\v', "'": "'"}
# LineTerminator inside a string literal is a syntax error. U+2028/2029 are
# allowed inside string literals since ES2019 (JSON superset) but not before;
# they are reported separately by the caller (legacy flag).
_ILLEGAL = {'\n', '\r'}


def parse(body):
    m = _HEAD.match(body)
    if not m:
        raise ValueError('does not start with ___eio[<n>]("')
    idx = int(m.group(1))
    i = m.end()
    out = []
    n = len(body)
    legacy_terminators = 0
    while True:
        if i >= n:
            raise ValueError('unterminated string literal')
        c = body[i]
        if c == '"':
            i += 1
            break
        if c in _ILLEGAL:
            raise ValueError('raw line terminator U+%04X inside the string '
                             'literal' % ord(c))
        if c in '\u2028\u2029':
            legacy_terminators += 1
        if c != '\\':
            out.append(c)
            i += 1
            continue
        i += 1
        if i >= n:
            raise ValueError('dangling backslash')
        e = body[i]
        if e in _SINGLE:
            out.append(_SINGLE[e])
            i += 1
        elif e == 'x':
            h = body[i + 1:i + 3]
            if len(h) != 2 or not re.fullmatch('[0-9a-fA-F]{2}', h):
                raise ValueError('bad \\x escape')
            out.append(chr(int(h, 16)))
            i += 3
        elif e == 'u':
            if body[i + 1:i + 2] == '{':
                j = body.find('}', i)
                if j < 0:
                    raise ValueError('bad \\u{ escape')
                out.append(chr(int(body[i + 2:j], 16)))
                i = j + 1
            else:
                h = body[i + 1:i + 5]
                if len(h) != 4 or not re.fullmatch('[0-9a-fA-F]{4}', h):
                    raise ValueError('bad \\u escape')
                out.append(chr(int(h, 16)))
                i += 5
        elif e == '0' and not body[i + 1:i + 2].isdigit():
            out.append('\0')
            i += 1
        elif e in '\n\r\u2028\u2029':
            # line continuation: contributes nothing
            if e == '\r' and body[i + 1:i + 2] == '\n':
                i += 1
            i += 1
        elif e.isdigit():
            raise ValueError('octal / \\%s escape' % e)
        else:
            out.append(e)       # NonEscapeCharacter: itself
            i += 1
    if body[i:] != ');':
        raise ValueError('trailing %r after the string literal (expected ");")'
                         % body[i:i + 20])
    s = ''.join(out)
    # combine surrogate pairs produced by 😀
    try:
        s = s.encode('utf-16', 'surrogatepass').decode('utf-16')
    except UnicodeDecodeError:
        pass
    return idx, s, legacy_terminators

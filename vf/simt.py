"""simT: the real threaded engineio.Server under the virtual scheduler, driven
through the real WSGIApp by complete PEP-3333 environs (wsgi_sim) and an
in-memory duplex WebSocket with the driver interface the socket code uses
(ws_sim)."""
import sys

from vf import vsched
from vf.simbase import SimBase, Ticket, QUIET, PATH

CLOSED = object()


class WsConnT:
    """Client end of a simulated WebSocket (threaded side)."""
    def __init__(self, sim):
        self.sim = sim
        self.q = vsched.VQueue(sim.sched)
        self.frames = []          # server -> client
        self.sent = []            # client -> server
        self.accepted = False
        self.server_closed = False
        self.client_closed = False
        self.vanished = False
        self.send_fails = False
        self.polite = True
        self.first_read_clk = None
        self.first_read_t = None
        self.reads = 0
        self.ticket = None
        self.handler_done = False
        self.proto = []
        self.on_frame = None
        self.on_accept = None
        self.on_close = None

    # client side actions
    def send(self, frame):
        self.sent.append({'clk': self.sim.tick(), 't': self.sim.now,
                          'frame': frame})
        self.q.put(frame)

    def close(self):
        if not self.client_closed:
            self.client_closed = True
            self.q.put(CLOSED)

    def vanish(self):
        self.vanished = True

    def stall(self, dur):
        """The peer drains slowly: the server's writes on this socket
        block until dur from now."""
        self.stall_until = self.sim.now + dur

    def texts(self):
        return [f['frame'] for f in self.frames]


class TWebSocket:
    """Server-side driver object handed to Socket._websocket_handler."""
    def __init__(self, sim, handler, server):
        self.sim = sim
        self.handler = handler
        self.conn = None
        self.eof = False
        if sim.ws_read_timeout:
            self.socket = self
        self._timeout = None

    def settimeout(self, t):
        self._timeout = t

    def __call__(self, environ, start_response):
        self.conn = environ['vf.ws']
        if getattr(self.conn, 'accept_fails', False):
            # the client went away before the driver could complete the
            # WebSocket handshake (what simple-websocket / eventlet raise)
            self.conn.server_closed = True
            raise BrokenPipeError('client gone during the handshake')
        d = getattr(self.conn, 'accept_delay', 0)
        if d:
            # the driver's own part of the handshake takes a while
            vsched.vsleep(self.sim.sched, d)
        self.conn.accepted = True
        self.conn.accept_clk = self.sim.tick()
        if self.conn.on_accept is not None:
            self.conn.on_accept(self.conn)
        try:
            return self.handler(self)
        finally:
            self.conn.handler_done = True
            self.conn.handler_end_clk = self.sim.tick()

    def wait(self):
        c = self.conn
        if c.first_read_clk is None:
            c.first_read_clk = self.sim.tick()
            c.first_read_t = self.sim.now
        c.reads += 1
        if self.eof or c.server_closed:
            return self._closed()
        try:
            item = c.q.get(timeout=self._timeout)
        except vsched.VQueue.Empty:
            raise TimeoutError('timed out')
        c.q.task_done()
        if item is CLOSED:
            self.eof = True
            return self._closed()
        return item

    def _closed(self):
        if self.sim.ws_close_mode == 'raise':
            raise ConnectionError('closed')
        return None

    def send(self, msg):
        c = self.conn
        if c.server_closed:
            c.proto.append('send after server close')
            raise OSError('closed')
        if c.client_closed or c.send_fails:
            raise OSError('peer gone')
        rem = getattr(c, 'stall_until', 0) - self.sim.now
        if rem > 0:
            vsched.vsleep(self.sim.sched, rem)      # a blocking send()
        # a scenario may ask for ONE write (the n-th of the whole run) to
        # time out, as a socket with a time-out set does on a slow peer
        n = getattr(self.sim, '_ws_writes', 0) + 1
        self.sim._ws_writes = n
        if getattr(self.sim, 'ws_write_timeout_at', None) == n:
            raise TimeoutError('timed out')
        if not isinstance(msg, (str, bytes, bytearray)):
            c.proto.append('frame of type %s' % type(msg).__name__)
        c.frames.append({'clk': self.sim.tick(), 't': self.sim.now,
                         'frame': bytes(msg) if isinstance(msg, bytearray)
                         else msg, 'lost': c.vanished})
        if c.on_frame is not None and not c.vanished:
            c.on_frame(c, c.frames[-1]['frame'])

    def close(self):
        c = self.conn
        if not c.server_closed:
            c.server_closed = True
            c.close_clk = self.sim.tick()
            if c.on_close is not None:
                c.on_close(c)
            # a local close ends the read side whatever the peer does
            # (simple-websocket / eventlet wake a blocked receive())
            c.q.put(CLOSED)


class Input:
    """Instrumented wsgi.input."""
    def __init__(self, ticket, data):
        self.t = ticket
        self.data = data or b''
        self.pos = 0

    def read(self, n=-1):
        self.t.reads.append(n)
        if n is None or n < 0:
            n = len(self.data) - self.pos
        out = self.data[self.pos:self.pos + n]
        self.pos += len(out)
        self.t.read_bytes += len(out)
        return out

    def readline(self, n=-1):
        return self.read(n)

    def readlines(self, hint=-1):
        return [self.read()]

    def __iter__(self):
        return iter([self.read()])


class Errors:
    def flush(self):
        pass

    def write(self, s):
        pass

    def writelines(self, seq):
        pass


class SimT(SimBase):
    kind = 'T'

    def __init__(self, server_kwargs=None, handler_cfg=None, policy='fifo',
                 seed=0, prefix=None, yield_prob=0.0, backend='greenlet',
                 ws_close_mode='none', ws_read_timeout=False,
                 websocket_available=True, validate=False, host='srv.test',
                 scheme='http', app_kwargs=None, sched=None):
        import engineio
        import engineio.socket as esocket
        self.sched = sched or vsched.Sched(policy, seed, prefix, yield_prob,
                                           backend)
        self._init_base(handler_cfg)
        self.ws_close_mode = ws_close_mode
        self.ws_read_timeout = ws_read_timeout
        self.validate = validate
        self.host, self.scheme = host, scheme
        kw = dict(server_kwargs or {})
        kw.setdefault('logger', QUIET)
        self.server = engineio.Server(async_mode='threading', **kw)
        self.server._async = vsched.async_dict(
            self.sched, websocket=(lambda h, s: TWebSocket(self, h, s))
            if websocket_available else None)
        self._old_time = esocket.time
        esocket.time = vsched.VTimeModule(self.sched)
        self.esocket = esocket
        def hconnect(sid, environ):
            # an application may greet the client from its connect handler
            if self.cfg.get('connect_send'):
                self.server.send(sid, self.cfg['connect_send'])
            # ... and may take a while (authentication look-up)
            dt = self.suspend.get('connect')
            if dt:
                self.events.append({'clk': self.tick(), 't': self.now,
                                    'ev': 'connect-entered', 'sid': sid})
                vsched.vsleep(self.sched, dt)
            return self._h_connect(sid, environ)
        def pause(ev):
            dt = self.suspend.get(ev)
            if dt:
                vsched.vsleep(self.sched, dt)

        def hmessage(sid, data):
            i = self._log_message(sid, data)
            pause('message')
            self._maybe_boom('message', i)

        def hdisconnect(sid, reason):
            i = self._log_disconnect(sid, reason)
            pause('disconnect')
            self._maybe_boom('disconnect', i)

        def hdisconnect_legacy(sid):
            hdisconnect(sid, '?legacy')
        # the reason handed to a legacy (sid)-only disconnect handler is
        # invisible to it; the harness notes it at the dispatch boundary
        self.true_reason = {}
        real_trigger = self.server._trigger_event

        def spy_trigger(event, *args, **kwargs):
            if event == 'disconnect' and len(args) == 2:
                self.true_reason.setdefault(args[0], args[1])
            return real_trigger(event, *args, **kwargs)
        self.server._trigger_event = spy_trigger
        self.server.on('connect', hconnect)
        self.server.on('message', hmessage)
        self.server.on('disconnect', hdisconnect_legacy
                       if self.legacy_disconnect else hdisconnect)
        self.app = engineio.WSGIApp(self.server, **(app_kwargs or {}))
        if validate:
            from wsgiref.validate import validator
            self.vapp = validator(self.app)

    @property
    def now(self):
        return self.sched.now

    def new_ws(self):
        return WsConnT(self)

    # ------------------------------------------------------------ requests
    def environ(self, method, q, headers, body, declared, ticket, ws,
                path=PATH):
        env = {
            'REQUEST_METHOD': method, 'SCRIPT_NAME': '', 'PATH_INFO': path,
            'QUERY_STRING': self.qs(q), 'SERVER_NAME': 'srv.test',
            'SERVER_PORT': '80', 'SERVER_PROTOCOL': 'HTTP/1.1',
            'REMOTE_ADDR': '127.0.0.1',
            'wsgi.version': (1, 0), 'wsgi.url_scheme': self.scheme,
            'wsgi.input': Input(ticket, body), 'wsgi.errors': Errors(),
            'wsgi.multithread': True, 'wsgi.multiprocess': False,
            'wsgi.run_once': False,
        }
        if self.host is not None:
            env['HTTP_HOST'] = self.host
        if body is not None or declared is not None:
            env['CONTENT_LENGTH'] = str(len(body or b'') if declared is None
                                        else declared)
            env['CONTENT_TYPE'] = 'text/plain;charset=UTF-8'
        for k, v in (headers or {}).items():
            key = 'HTTP_' + k.upper().replace('-', '_')
            if v is None:
                env.pop(key, None)
            elif isinstance(v, (list, tuple)):
                # a repeated header line: WSGI servers join the values
                env[key] = ','.join(v)
            else:
                env[key] = v
        if ws is not None:
            env['vf.ws'] = ws
        return env

    def request(self, method, q, headers=None, body=None, declared=None,
                ws=None, path=PATH, env_override=None):
        t = Ticket(self, 'request', {'method': method, 'q': q,
                                     'ws': ws is not None})
        self.tickets.append(t)
        env = self.environ(method, q, headers, body, declared, t, ws, path)
        if env_override:
            for k, v in env_override.items():
                if v is None:
                    env.pop(k, None)
                else:
                    env[k] = v
        t.env = env
        t.task = self.sched.spawn(self._serve, t, env, name='req-%s' % method)
        return t

    def _serve(self, t, env):
        calls = []
        t.c_enter = self.tick()

        def start_response(status, headers, exc_info=None):
            calls.append((status, headers))
            if len(calls) == 1:
                t.status, t.headers = status, list(headers)
            return lambda data: None
        app = self.vapp if (self.validate and 'vf.ws' not in env) else self.app
        try:
            it = app(env, start_response)
            chunks = []
            if it is not None:
                for c in it:
                    chunks.append(c)
                if hasattr(it, 'close'):
                    it.close()
            t.body = b''.join(c for c in chunks if isinstance(c, bytes))
            t.chunks = chunks
            if 'vf.ws' not in env or calls:
                self._wsgi_monitor(t, calls, chunks)
        except vsched.TaskKilled:
            raise
        except AssertionError as e:
            t.proto.append('wsgiref.validate: %s' % (e,))
            t.exc = e
        except BaseException as e:
            t.exc = e
            t.exc_tb = _tb()
        finally:
            t.finish()

    def _wsgi_monitor(self, t, calls, chunks):
        import re
        if len(calls) != 1:
            t.proto.append('start_response called %d times' % len(calls))
        for status, headers in calls:
            if not isinstance(status, str) or not re.match(r'^\d{3} \S',
                                                            status):
                t.proto.append('bad status line %r' % (status,))
            if not isinstance(headers, list) or not all(
                    isinstance(h, tuple) and len(h) == 2 and
                    isinstance(h[0], str) and isinstance(h[1], str)
                    for h in headers):
                t.proto.append('headers not a list of (str,str): %r' % (
                    headers,))
        for c in chunks:
            if not isinstance(c, bytes):
                t.proto.append('body chunk of type %s' % type(c).__name__)

    # ------------------------------------------------------------ app calls
    def app_call(self, name, *args):
        t = Ticket(self, 'app', {'call': name, 'args': args})
        self.tickets.append(t)

        def run():
            try:
                t.result = getattr(self.server, name)(*args)
            except vsched.TaskKilled:
                raise
            except BaseException as e:
                t.exc = e
                t.exc_tb = _tb()
            finally:
                t.finish()
        t.task = self.sched.spawn(run, name='app-' + name)
        return t

    def app_seq(self, calls):
        """One application task making the calls one after the other."""
        t = Ticket(self, 'app', {'call': 'seq', 'n': len(calls)})
        self.tickets.append(t)

        def run():
            try:
                for name, args in calls:
                    getattr(self.server, name)(*args)
            except vsched.TaskKilled:
                raise
            except BaseException as e:
                t.exc = e
                t.exc_tb = _tb()
            finally:
                t.finish()
        t.task = self.sched.spawn(run, name='app-seq')
        return t

    def app_sync(self, name, *args):
        """Non-blocking API call made directly (accessors)."""
        return getattr(self.server, name)(*args)

    def session_get(self, sid):
        return self.server.get_session(sid)

    def session_save(self, sid, val):
        return self.server.save_session(sid, val)

    def session_cm(self, sid, key, val):
        with self.server.session(sid) as s:
            s[key] = val

    def session_block(self, sid, inside):
        """An application task that enters `with server.session(sid)`, runs
        inside() in the block and leaves it. -> ticket; .result is 'left' or
        the type name of what leaving the block raised."""
        t = Ticket(self, 'app', {'call': 'session-block'})
        self.tickets.append(t)

        def run():
            try:
                try:
                    with self.server.session(sid) as s:
                        s['written-in-block'] = 1
                        inside()
                    t.result = 'left'
                except vsched.TaskKilled:
                    raise
                except BaseException as e:
                    t.result = type(e).__name__
            finally:
                t.finish()
        t.task = self.sched.spawn(run, name='app-session-block')
        return t

    # --------------------------------------------------------------- running
    def quiesce(self):
        self.sched.quiesce()

    def advance(self, dt):
        self.sched.advance(dt)

    def run_until(self, pred, horizon):
        return self.sched.run_until(pred, horizon)

    def step(self, n=1):
        for _ in range(n):
            if not self.sched.step():
                break

    def after(self, dt, fn):
        def run():
            vsched.vsleep(self.sched, dt)
            fn()
        if dt <= 0:
            return self.sched.spawn(fn, name='client-now')
        return self.sched.spawn(run, name='client-timer')

    def transport_of(self, sid):
        try:
            return self.server.transport(sid)
        except KeyError:
            return None

    def snapshot(self):
        out = {}
        for sid, s in list(self.server.sockets.items()):
            out[sid] = {
                'closed': s.closed, 'closing': s.closing,
                'upgraded': s.upgraded, 'upgrading': s.upgrading,
                'connected': s.connected,
                'queue': [None if p is None else (p.packet_type, repr(p.data))
                          for p in s.queue.items],
                'unfinished': s.queue.unfinished_tasks,
                'last_ping': s.last_ping, 'session': repr(s.session),
            }
        return out

    def live_sids(self):
        return sorted(sid for sid, s in self.server.sockets.items()
                      if not s.closed)

    def table_sids(self):
        return sorted(self.server.sockets)

    def hung_tasks(self):
        out = []
        for t in self.sched.blocked_forever():
            out.append((t.name, self.sched.stack_of(t)))
        return out

    def stuck_tickets(self):
        return [t for t in self.tickets if not t.done]

    def teardown(self):
        z = self.sched.kill_all()
        self.esocket.time = self._old_time
        return z


def _tb():
    import traceback
    return traceback.format_exc()[-1500:]
